"""C01 safe memory reclamation: no object destroyed while a guard_ptr protects it."""
from xsym.scenario import Scenario

EXPLANATION = ('A reader acquires a guard on the node published in a shared concurrent_ptr and dereferences it; a writer replaces the node, '
               'retires the old one and drives the scheme (scan / epoch advances), then both threads exit (thread-local destructors run in the '
               'model). All context-switch points are solver variables (K rounds). The engine\'s lifetime oracle flags every load/store of a '
               'freed allocation, double frees and wild pointers.')
ASSUMPTIONS = ['2-3 threads, K rounds (<= K*T-1 context switches), one shared cell, <= 2 retired nodes, sequentially consistent memory',
               'std::sort/std::vector/binary_search/lower_bound used by the scans are replaced by contract-equivalent linear stubs (harness/common/std_stubs.h)',
               'operator new never returns a previously freed address (no ABA through address reuse)']
TIMEOUT = {'quick': 900, 'thorough': 3000}
SRC = 'C01/reclaim_mt.cpp'
NAMES = {1: 'hp-static', 2: 'hp-dynamic', 3: 'he-static', 4: 'he-dynamic', 5: 'ebr', 6: 'nebr', 7: 'debra', 8: 'qsbr', 9: 'stamp-it', 10: 'lfrc',
         11: 'lfrc-tl', 12: 'geb-lazy'}
PUMP = {1: 0, 2: 0, 3: 0, 4: 0, 5: 3, 6: 3, 7: 3, 8: 3, 9: 1, 10: 0, 11: 0, 12: 3}


def sc(r, K=2, extra=(), tag='', unwind=3, threads=2):
    d = ['RECL=%d' % r, 'PUMP=%d' % PUMP[r], 'HPK=1'] + list(extra)
    return Scenario('%s-K%d%s' % (NAMES[r], K, tag), SRC, d, threads=threads, K=K, unwind=unwind, cover=[1, 2], allow_unwound=True)


def scenarios(tier):
    s = [sc(1), sc(10), sc(1, extra=['ACQ_IF_EQUAL'], tag='-acq-if-equal'), sc(10, extra=['COPY_GUARD'], tag='-copy'), sc(1, extra=['MOVE_GUARD'], tag='-move'),
         sc(1, extra=['ORDER_SRW'], tag='-scanner-reader-writer', threads=3)]
    if tier == 'thorough':
        s += [sc(r) for r in (2, 3, 4, 5, 6, 7, 8, 9, 11, 12)] + [sc(5, extra=['COPY_GUARD'], tag='-copy')]
        s += [sc(1, K=3), sc(5, K=3), sc(10, K=3), sc(3, K=3)]
        s += [sc(1, extra=['SCANNER'], tag='-3threads', threads=3), sc(5, extra=['USE_REGION'], tag='-region'), sc(6, extra=['USE_REGION'], tag='-region'),
              sc(5, extra=['SECOND_RETIRE'], tag='-2retire')]
    return s
