"""C11 vyukov_hash_map iterators: exclusive traversal, erase(iterator), no lost locks, readers never misled."""
from xsym.scenario import Scenario

EXPLANATION = ('All keys collide in one bucket (3 array slots + extension items; the last bucket, so that a traversal ends right behind it). '
               'Sequential: a full begin()/++ traversal in which the element at a SOLVER-CHOSEN position is removed with erase(iterator): every '
               'element is yielded exactly once, exactly the current one is removed, the iterator continues with the unvisited ones, afterwards '
               'all bucket locks are released (ordinary updates complete) and the content is right; find(k)+erase(iterator)+reset for array and '
               'extension items. Concurrent: iterator thread find(k), erase(it), reset vs a lock-free try_get_value of another key of the same '
               'bucket that is present throughout, all context switches symbolic: the reader must find it (its version validation has to '
               'detect the removal, i.e. the version written back when the iterator unlocks must not roll back).')
ASSUMPTIONS = ['trivial int keys/values, capacity 128, 5-6 colliding keys, reclaimer = epoch based; 2 threads, K=2-3; SC only; traversal of other '
               '(empty) buckets only in the sequential begin(); infeasible loop iterations pruned by in-process z3 feasibility checks']
TIMEOUT = {'quick': 900, 'thorough': 2400}
SRC = 'C11/vmap_it.cpp'
UM = {'*try_get_value*': 14}
BASE = ['RECL=5', 'HASHV=127']


def scenarios(tier):
    s = [Scenario('seq-traverse-erase-at-symbolic-position', SRC, BASE + ['MODE=1'], unwind=8, sym_loop_cap=400, max_recursion=140, prune=True, cover=[1]),
         Scenario('seq-find-erase-ext-head', SRC, BASE + ['MODE=2', 'FKEY=5'], unwind=8, sym_loop_cap=400, max_recursion=140, prune=True, cover=[1]),
         Scenario('seq-find-erase-ext-tail', SRC, BASE + ['MODE=2', 'FKEY=4'], unwind=8, sym_loop_cap=400, max_recursion=140, prune=True, cover=[1]),
         Scenario('seq-find-erase-array-item', SRC, BASE + ['MODE=2', 'FKEY=2'], unwind=8, sym_loop_cap=400, max_recursion=140, prune=True, cover=[1])]
    for wk, rk in ((5, 4), (4, 5), (2, 5), (2, 4)):
        s.append(Scenario('mt-iter-erase%d-vs-lookup%d-K2' % (wk, rk), SRC, BASE + ['MODE=3', 'WK=%d' % wk, 'RK=%d' % rk], threads=2, K=2, unwind=6,
                          unwind_map=UM, max_recursion=140, cover=[1, 2]))
    # exclusivity: two erasures through one iterator vs a writer inserting into the same bucket (the writer spins on the bucket lock:
    # executions with more than U spins inside one window are outside the bound)
    # (thorough tier: 5-15 min per scenario)
    if tier == 'thorough':
        s.append(Scenario('mt-iter-erase5-erase4-vs-emplace6-K2', SRC, BASE + ['MODE=4', 'WK=5'], threads=2, K=2, unwind=6, unwind_map=UM, max_recursion=140,
                          cover=[1, 2], allow_unwound=True))
        s.append(Scenario('mt-iter-erase5-erase4-vs-emplace6-K3', SRC, BASE + ['MODE=4', 'WK=5'], threads=2, K=3, unwind=6, unwind_map=UM, max_recursion=140,
                          cover=[1, 2], allow_unwound=True))
        s.append(Scenario('mt-iter-erase2-erase-vs-emplace6-K2', SRC, BASE + ['MODE=4', 'WK=2'], threads=2, K=2, unwind=6, unwind_map=UM, max_recursion=140,
                          cover=[1, 2], allow_unwound=True))
        s.append(Scenario('seq-traverse-erase-6keys', SRC, BASE + ['MODE=1', 'NKEYS=6'], unwind=9, sym_loop_cap=400, max_recursion=140, prune=True, cover=[1]))
        for wk, rk in ((5, 4), (2, 5), (6, 4), (1, 3)):
            s.append(Scenario('mt-iter-erase%d-vs-lookup%d-K3' % (wk, rk), SRC, BASE + ['MODE=3', 'NKEYS=6', 'WK=%d' % wk, 'RK=%d' % rk], threads=2, K=3, unwind=6,
                              unwind_map=UM, max_recursion=140, cover=[1, 2], allow_unwound=True))
    return s
