"""C08 Harris-Michael list based set / hash map: concurrent histories are linearizable w.r.t. a sequential set of unique keys."""
from xsym.scenario import Scenario

EXPLANATION = ('Two threads run fixed programs of 1-2 operations (insert / erase / contains / get_or_emplace) over keys 1..3 on a set (or a '
               'one-bucket map, i.e. all keys collide) with a given initial content; every context switch position is a solver variable. '
               'vp_final enumerates ALL interleavings of the two programs on a sequential reference set and the solver must show that the '
               'observed results plus the final content are explained by one of them in every execution; the final list must be strictly '
               'sorted, duplicate free and free of logically deleted nodes.')
ASSUMPTIONS = ['2 threads, <= 2 operations per thread, keys 1..3, K rounds (K*2-1 context switches); real-time order between operations of '
               'different threads is not part of the oracle (any interleaving respecting program order is accepted); infeasible loop iterations '
               'are pruned by in-process z3 feasibility checks; reclaimer lock_free_ref_count (cheapest encoding) unless the name says otherwise']
TIMEOUT = {'quick': 900, 'thorough': 3000}
SRC = 'C08/hm2.cpp'


def sc(name, defs, K=2, recl=10, **kw):
    return Scenario(name, SRC, ['RECL=%d' % recl] + defs, threads=2, K=K, unwind=3, cover=[1, 2], **kw)


def scenarios(tier):
    s = [sc('set-ins2-ins2', ['PRE=0', 'T1A=12', 'T2A=12']),
         sc('set-era2-era2', ['PRE=4', 'T1A=22', 'T2A=22']),
         sc('set-ins2-era2-present', ['PRE=4', 'T1A=12', 'T2A=22']),
         sc('map-era2-era2', ['USE_MAP', 'PRE=4', 'T1A=22', 'T2A=22']),
         sc('map-goe2-era2', ['USE_MAP', 'PRE=4', 'T1A=42', 'T2A=22'])]
    if tier == 'thorough':
        s += [sc('set-era3-ins2-in-front', ['PRE=10', 'T1A=23', 'T2A=12']),
              sc('set-era1-era2-adjacent', ['PRE=6', 'T1A=21', 'T2A=22']),
              sc('set-ins2-era1-behind-erased', ['PRE=10', 'T1A=12', 'T2A=21']),
              sc('set-ins2-era2-absent', ['PRE=0', 'T1A=12', 'T2A=22']),
              sc('set-era2ins2-contains2', ['PRE=4', 'T1A=22', 'T1B=12', 'T2A=32']),
              sc('set-ins1era2-era1ins2', ['PRE=4', 'T1A=11', 'T1B=22', 'T2A=21', 'T2B=12']),
              sc('set-ins2-ins2-K3', ['PRE=0', 'T1A=12', 'T2A=12'], K=3),
              sc('set-era1-era2-adjacent-K3', ['PRE=6', 'T1A=21', 'T2A=22'], K=3),
              sc('set-ins2-era1-K3', ['PRE=10', 'T1A=12', 'T2A=21'], K=3),
              sc('map-era2-era2-K3', ['USE_MAP', 'PRE=4', 'T1A=22', 'T2A=22'], K=3),
              sc('map-ins2-era2', ['USE_MAP', 'PRE=4', 'T1A=12', 'T2A=22']),
              sc('set-era1-era2-hp', ['PRE=6', 'T1A=21', 'T2A=22', 'HPK=3'], recl=1),
              sc('set-ins2-era1-ebr', ['PRE=10', 'T1A=12', 'T2A=21'], recl=5)]
    return s
