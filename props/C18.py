"""C18 hazard pointer / hazard era slots: K available, exhaustion reported, slots reusable."""
from xsym.scenario import Scenario

EXPLANATION = ('Symbolic sequences of guard operations (acquire, acquire_if_equal, copy, move, reset, era advance) on 3 guards with a pool of '
               'K slots; the operation of every step (and, after a concrete exhaustion prefix, also the guard indices) are solver variables. '
               'Oracle: throwing only on exhaustion, slot accounting invariant (every protecting guard owns a published slot, guard counts '
               'match) after every step including after exceptions, K fresh guards acquirable after releasing everything.')
ASSUMPTIONS = ['protection by a published slot is taken as the representation invariant here; that scans honour published slots is C01',
               'hazard_eras: the era clock is advanced directly (as a retirement in another thread would)']
TIMEOUT = {'quick': 900, 'thorough': 2400}
SRC = 'C18/slots.cpp'
NAMES = {1: 'hp-static', 2: 'hp-dynamic', 3: 'he-static', 4: 'he-dynamic'}


def scenarios(tier):
    s = []
    for r in (1, 3):
        s.append(Scenario('%s-K2-rot-n3' % NAMES[r], SRC, ['RECL=%d' % r, 'HPK=2', 'NOPS=3'], unwind=4, cover=[1, 3]))
        s.append(Scenario('%s-K2-full-prefix-n2' % NAMES[r], SRC, ['RECL=%d' % r, 'HPK=2', 'NOPS=2', 'PREFIX_FULL', 'SYM_INDEX'], unwind=4, cover=[1, 2, 3]))
    s.append(Scenario('hp-static-K1-rot-n3', SRC, ['RECL=1', 'HPK=1', 'NOPS=3'], unwind=4, cover=[1, 2, 3]))
    s.append(Scenario('hp-dynamic-K1-rot-n3', SRC, ['RECL=2', 'HPK=1', 'NOPS=3', 'DYNAMIC'], unwind=4, cover=[1, 3]))
    # deterministic growth instances of the dynamic strategy (third/fourth slot = second heap block): decided by constant folding
    s.append(Scenario('he-dynamic-K1-growth-fixed', SRC, ['RECL=4', 'HPK=1', 'NOPS=3', 'PREFIX_FULL', 'DYNAMIC', 'FIXOPS={{0,0,0},{5,0,0},{0,1,1}}'], unwind=4, cover=[1, 3]))
    s.append(Scenario('hp-dynamic-K1-growth-fixed', SRC, ['RECL=2', 'HPK=1', 'NOPS=3', 'PREFIX_FULL', 'DYNAMIC', 'FIXOPS={{0,2,1},{2,0,1},{0,1,1}}'], unwind=4, cover=[1, 3]))
    if tier == 'thorough':
        for r in (1, 3):
            s.append(Scenario('%s-K2-rot-n4' % NAMES[r], SRC, ['RECL=%d' % r, 'HPK=2', 'NOPS=4'], unwind=4, cover=[1, 3]))
            s.append(Scenario('%s-K3-full-prefix-n2' % NAMES[r], SRC, ['RECL=%d' % r, 'HPK=3', 'NOPS=2', 'PREFIX_FULL', 'SYM_INDEX'], unwind=4, cover=[1, 3]))
        s.append(Scenario('he-dynamic-K1-full-prefix-n2', SRC, ['RECL=4', 'HPK=1', 'NOPS=2', 'PREFIX_FULL', 'SYM_INDEX', 'DYNAMIC'], unwind=4, cover=[1, 3]))
    return s
