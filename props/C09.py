"""C09 Harris-Michael iterators stay valid and weakly consistent under concurrent updates."""
from xsym.scenario import Scenario

EXPLANATION = ('Thread 1 traverses the whole container with an iterator (begin / * / ++ until end) or does find(k) + erase(iterator); thread 2 '
               'inserts / erases keys around the iterator position; every context switch position is a solver variable. Obligations: every '
               'access is to live memory (engine lifetime oracle; reclaimers that really free are used for that), yielded keys are strictly '
               'increasing (no key twice), every yielded key was in the container at some time, every key present throughout is yielded, '
               'erase(iterator) removes exactly its element and returns an iterator to a later element, final content follows the programs.')
ASSUMPTIONS = ['2 threads (one traverser, one updater with 1-2 operations), keys 1..5, K rounds of symbolic context switches; set and one-bucket map '
               '(all keys collide); infeasible loop iterations are pruned by in-process z3 feasibility checks']
TIMEOUT = {'quick': 900, 'thorough': 3000}
SRC = 'C09/hm_it.cpp'


def sc(name, defs, K=2, recl=10, unwind=4, **kw):
    return Scenario(name, SRC, ['RECL=%d' % recl] + defs, threads=2, K=K, unwind=unwind, cover=[1, 2], **kw)


def scenarios(tier):
    s = [sc('set-traverse13-vs-ins2', ['PRE=10', 'MODE=1', 'T2A=12']),            # F6: the element in front of the inserted one was yielded twice
         sc('map-traverse13-vs-ins2', ['USE_MAP', 'PRE=10', 'MODE=1', 'T2A=12']),
         sc('set-traverse12-vs-ins3', ['PRE=6', 'MODE=1', 'T2A=13'])]
    if tier == 'thorough':
        # an updater that erases makes the encoding several times larger (minutes to an hour per scenario)
        s += [sc('set-traverse123-vs-era2', ['PRE=14', 'MODE=1', 'T2A=22']),
              sc('set-traverse12-vs-era1', ['PRE=6', 'MODE=1', 'T2A=21']),
              sc('set-eraseit2-vs-era2', ['PRE=14', 'MODE=2', 'FK=2', 'T2A=22']),
              sc('set-eraseit2-vs-ins3', ['PRE=6', 'MODE=2', 'FK=2', 'T2A=13']),
              sc('set-traverse123-vs-era2-hp', ['PRE=14', 'MODE=1', 'T2A=22', 'HPK=3'], recl=1),
              sc('set-traverse12-vs-era1-ebr', ['PRE=6', 'MODE=1', 'T2A=21'], recl=5),
              sc('map-traverse123-vs-era2', ['USE_MAP', 'PRE=14', 'MODE=1', 'T2A=22']),
              sc('set-traverse13-vs-ins2-K3', ['PRE=10', 'MODE=1', 'T2A=12'], K=3),
              sc('set-traverse123-vs-era2era3', ['PRE=14', 'MODE=1', 'T2A=22', 'T2B=23']),
              sc('set-eraseit2-vs-era1', ['PRE=14', 'MODE=2', 'FK=2', 'T2A=21']),
              sc('map-eraseit2-vs-era2', ['USE_MAP', 'PRE=14', 'MODE=2', 'FK=2', 'T2A=22']),
              sc('set-eraseit2-vs-era2-hp', ['PRE=14', 'MODE=2', 'FK=2', 'T2A=22', 'HPK=3'], recl=1)]
    return s
