"""C07 queues own their elements: each value is moved out or destroyed exactly once."""
from xsym.scenario import Scenario

EXPLANATION = ('Owning element types (non-trivial movable token, std::unique_ptr<token>) with counting destructors; two producers and a consumer '
               'with solver-chosen context switches, then the queue is destroyed with whatever is still inside. Census per token: handed out '
               'XOR destroyed exactly once if accepted; if rejected, still with the caller (by-reference APIs) or destroyed once with the '
               'by-value parameter (nikolaev_bounded / kirsch queues take value_type by value).')
ASSUMPTIONS = ['quick: vyukov_bounded_queue<Tok>, michael_scott_queue<unique_ptr> with lock_free_ref_count; thorough adds nikolaev_bounded_queue<unique_ptr>',
               'ramalhete_queue (finding F4: ~node double delete when two producers overshoot a full node) and nikolaev_queue produce formulas beyond the solver budget and are only attempted in the thorough tier; F4 is documented in DESIGN.md, not decided here',
               'spin/retry loops beyond U iterations are outside the bound']
TIMEOUT = {'quick': 900, 'thorough': 3000}
SRC = 'Q/own_mt.cpp'


def scenarios(tier):
    s = [Scenario('vyukov-tok-K2', SRC, ['OSEL=1'], threads=2, K=2, unwind=4, cover=[1, 2], allow_unwound=True),
         Scenario('vyukov-tok-cap1ish-K3', SRC, ['OSEL=1', 'NPUSH1=2', 'NPUSH2=1', 'NPOP2=1'], threads=2, K=3, unwind=4, cover=[1, 2], allow_unwound=True),
         Scenario('ms-lfrc-uptr-K2', SRC, ['OSEL=3', 'RECL=10', 'NPUSH1=1', 'NPUSH2=0'], threads=2, K=2, unwind=3, cover=[1, 2]),
         Scenario('ms-lfrc-uptr-2producers-K2', SRC, ['OSEL=3', 'RECL=10', 'NPUSH1=1', 'NPUSH2=1', 'NPOP2=1'], threads=2, K=2, unwind=3, cover=[1, 2])]
    # two producers overshooting a full ramalhete node + consumer, then queue destruction (found F4; 20 min before DESIGN.md 10.6, now seconds)
    s.append(Scenario('ramalhete-lfrc-uptr-K2', SRC, ['OSEL=5', 'RECL=10', 'NPUSH1=2', 'NPUSH2=1', 'NPOP2=1'], threads=2, K=2, unwind=3, cover=[1, 2]))
    if tier == 'thorough':
        s += [Scenario('nikolaev-bounded-uptr-K2', SRC, ['OSEL=4'], threads=2, K=2, unwind=4, cover=[1, 2], allow_unwound=True),
              Scenario('ramalhete-lfrc-uptr-K3', SRC, ['OSEL=5', 'RECL=10', 'NPUSH1=2', 'NPUSH2=1', 'NPOP2=1'], threads=2, K=3, unwind=3, cover=[1, 2]),
              Scenario('ms-lfrc-uptr-K3', SRC, ['OSEL=3', 'RECL=10', 'NPUSH1=2', 'NPUSH2=1', 'NPOP2=1'], threads=2, K=3, unwind=3, cover=[1, 2])]
    return s
