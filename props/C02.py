"""C02 retired objects are destroyed exactly once by their own deleter, never leaked."""
from xsym.scenario import Scenario

EXPLANATION = ('Two threads retire nodes with stateful custom deleters (one node is shared and guarded by the other thread), then exit (thread-local '
               'destructors run inside the model, incl. hand-over of pending nodes); a later generation (main thread) performs the public flush. '
               'Census: every retired node was destroyed exactly once, by its own deleter; the engine also flags double frees / use after free.')
ASSUMPTIONS = ['hazard_pointer (quick); 2 threads + flushing generation; K=2 rounds; SC only; std algorithm stubs']
TIMEOUT = {'quick': 900, 'thorough': 3000}
SRC = 'C02/census.cpp'


def scenarios(tier):
    s = [Scenario('hp-census-K2', SRC, ['RECL=1', 'HPK=1', 'PUMP=0'], threads=2, K=2, unwind=3, cover=[1, 2]),
         ]
    if tier == 'thorough':
        s += [Scenario('hp-census-cross-guards-K2', SRC, ['RECL=1', 'HPK=2', 'PUMP=0', 'CROSS'], threads=2, K=2, unwind=3, cover=[1, 2]),
              Scenario('he-census-K2', SRC, ['RECL=3', 'HPK=1', 'PUMP=0'], threads=2, K=2, unwind=3, cover=[1, 2]),
              Scenario('ebr-census-K2', SRC, ['RECL=5', 'PUMP=3'], threads=2, K=2, unwind=3, cover=[1, 2]),
              Scenario('qsbr-census-K2', SRC, ['RECL=8', 'PUMP=3'], threads=2, K=2, unwind=3, cover=[1, 2]),
              Scenario('hp-census-two-handovers-3threads-K2', SRC, ['RECL=1', 'HPK=2', 'PUMP=0', 'CROSS', 'HOLDER3'], threads=3, K=2, unwind=3, cover=[1, 2],
                       note='a holder thread keeps both retired nodes pending, so both retiring threads hand their nodes over at exit concurrently'),
              Scenario('hp-census-K3', SRC, ['RECL=1', 'HPK=1', 'PUMP=0'], threads=2, K=3, unwind=3, cover=[1, 2])]
    return s
