"""C12 chase_work_stealing_deque: every pushed item handed out exactly once."""
from xsym.scenario import Scenario

OFFMAX = 'OFFMAX=0x3fffffffffffffffULL'
EXPLANATION = ('Sequential scenarios start the real deque at an arbitrary 62-bit index offset (one solver variable) and run a symbolic '
               'operation sequence (each op in {push,pop,steal} is a solver variable) against a reference deque. Concurrent scenarios run the '
               'owner and a thief in K rounds with solver-chosen context-switch points at every memory access and check that every pushed item '
               'is handed out exactly once.')
ASSUMPTIONS = ['index offsets (total prior traffic) below 2^62; beyond 2^63 try_steal compares indices as signed values',
               'concurrent scenarios: 2 threads, <= 2K-1 context switches, <= 3 owner operations + 2 steals']
TIMEOUT = {'quick': 900, 'thorough': 1800}
MT = 'C12/deque_mt.cpp'


def scenarios(tier):
    s = [Scenario('seq-cap2-n3', 'C12/deque_seq.cpp', ['CAP=2', 'NOPS=3', OFFMAX], unwind=6, cover=[1, 2]),
         Scenario('seq-cap2-grow-n4', 'C12/deque_seq.cpp', ['CAP=2', 'NOPS=4', OFFMAX, 'PUSHFIRST=3'], unwind=8, cover=[1, 2],
                  note='three pushes force a growth at an arbitrary offset, then one symbolic operation, then drain'),
         Scenario('mt-push2-pop1-steal1-K2', MT, [], threads=2, K=2, unwind=6, cover=[1, 2]),
         Scenario('mt-push2-pop1-steal1-K3', MT, [], threads=2, K=3, unwind=6, cover=[1, 2]),
         Scenario('mt-grow-vs-steal-off2', MT, ['OFF=2', 'PREPUSH=2', 'NPUSH=1', 'NPOP=0', 'NSTEAL=1'], threads=2, K=2, unwind=6, cover=[2],
                  note='owner push triggers growth while the thief sits between its capacity load and its slot load'),
         Scenario('mt-last-item-race', MT, ['PREPUSH=1', 'NPUSH=0', 'NPOP=1', 'NSTEAL=1'], threads=2, K=3, unwind=6, cover=[])]
    if tier == 'thorough':
        s += [Scenario('seq-cap2-grow-n5', 'C12/deque_seq.cpp', ['CAP=2', 'NOPS=5', OFFMAX, 'PUSHFIRST=3'], unwind=8, cover=[1, 2]),
              Scenario('seq-cap2-n5', 'C12/deque_seq.cpp', ['CAP=2', 'NOPS=5', OFFMAX], unwind=8, cover=[1, 2]),
              Scenario('seq-cap4-grow-n6', 'C12/deque_seq.cpp', ['CAP=4', 'NOPS=6', OFFMAX, 'PUSHFIRST=5'], unwind=10, cover=[1, 2]),
              Scenario('mt-grow-vs-steal-off6-K3', MT, ['OFF=6', 'PREPUSH=2', 'NPUSH=2', 'NPOP=1', 'NSTEAL=2'], threads=2, K=3, unwind=6, cover=[2]),
              Scenario('mt-3threads-K2', MT, ['THIEF2', 'PREPUSH=2', 'NPUSH=1', 'NPOP=1'], threads=3, K=2, unwind=6, cover=[])]
    return s
