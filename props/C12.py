"""C12 chase_work_stealing_deque: every pushed item handed out exactly once."""
from xsym.scenario import Scenario

OFFMAX = 'OFFMAX=0x3fffffffffffffffULL'
EXPLANATION = ('Sequential scenarios start the real deque at an arbitrary 62-bit index offset (solver variable) and run a symbolic '
               'operation sequence (each op in {push,pop,steal} is a solver variable) against a reference deque.')
ASSUMPTIONS = ['index offsets (total prior traffic) below 2^62; beyond 2^63 try_steal compares indices as signed values']
TIMEOUT = {'quick': 300, 'thorough': 1800}


def scenarios(tier):
    s = [Scenario('seq-cap2-n4', 'C12/deque_seq.cpp', ['CAP=2', 'NOPS=4', OFFMAX], unwind=6, cover=[1, 2]),
         Scenario('seq-cap4-n6-grow', 'C12/deque_seq.cpp', ['CAP=4', 'NOPS=6', OFFMAX, 'PUSHFIRST=5'], unwind=8, cover=[1, 2])]
    if tier == 'thorough':
        s += [Scenario('seq-cap2-n6', 'C12/deque_seq.cpp', ['CAP=2', 'NOPS=6', OFFMAX], unwind=8, cover=[1, 2])]
    return s
