"""C13 left_right: readers always see one consistent, fully updated instance."""
from xsym.scenario import Scenario

EXPLANATION = ('A writer performs back-to-back updates (both words of a 2-word value are incremented non-atomically) while 1-2 readers copy the two '
               'words one after the other inside the read functor; every context switch position is a solver variable. A read functor that '
               'overlaps an update functor on the same instance yields a mixed snapshot (assert #1); reads must be monotone; afterwards both '
               'instances must contain every update exactly once.')
ASSUMPTIONS = ['1 writer (std::mutex modelled as a blocking flag), 1-2 readers, 2 updates; writer wait loops beyond U spins are outside the bound']
TIMEOUT = {'quick': 900, 'thorough': 2400}
SRC = 'C13/left_right.cpp'


def scenarios(tier):
    s = [Scenario('2updates-1read-K2', SRC, ['NUPDATES=2'], threads=2, K=2, unwind=3, cover=[1, 2], allow_unwound=True),
         Scenario('2updates-1read-K3', SRC, ['NUPDATES=2'], threads=2, K=3, unwind=3, cover=[1, 2], allow_unwound=True),
         Scenario('2updates-2reads-K3', SRC, ['NUPDATES=2', 'NREADS=2'], threads=2, K=3, unwind=3, cover=[1, 2], allow_unwound=True)]
    if tier == 'thorough':
        s += [Scenario('2updates-1read-K4', SRC, ['NUPDATES=2'], threads=2, K=4, unwind=3, cover=[1, 2], allow_unwound=True),
              Scenario('3updates-2reads-K4', SRC, ['NUPDATES=3', 'NREADS=2'], threads=2, K=4, unwind=3, cover=[1, 2], allow_unwound=True),
              Scenario('2updates-2readers-K3', SRC, ['NUPDATES=2', 'READER2'], threads=3, K=3, unwind=3, cover=[1, 2], allow_unwound=True)]
    return s
