"""C05 vyukov_bounded_queue / nikolaev_bounded_queue are linearizable bounded FIFOs."""
from xsym.scenario import Scenario

EXPLANATION = ('Sequential: after ROT push/pop pairs (ring position) a symbolic push/pop sequence is compared with a bounded FIFO reference and '
               'the queue is drained. Concurrent: producer/consumer threads with solver-chosen context switches; conservation, no duplication, '
               'FIFO order, legality of empty/full reports are asserted after a sequential drain.')
ASSUMPTIONS = ['capacities 2 (and 4 in thorough); ring rotations ROT in a small set (shape parameter, enumerated); <= 4 symbolic operations',
               '2 threads (3 in thorough), K rounds; vyukov strong operations spin while another operation is in flight: executions needing more than U spins are outside the bound']
TIMEOUT = {'quick': 900, 'thorough': 2400}
SEQ, MT = 'Q/queue_seq.cpp', 'Q/queue_mt.cpp'


def scenarios(tier):
    s = []
    for rot in (0, 1, 3):
        s.append(Scenario('vyukov-seq-cap2-rot%d-n4' % rot, SEQ, ['QSEL=1', 'QCAP=2', 'NOPS=4', 'ROT=%d' % rot], unwind=6, cover=[1, 2]))
    s.append(Scenario('nikolaev-seq-cap2-n2', SEQ, ['QSEL=2', 'QCAP=2', 'NOPS=2'], unwind=6, cover=[1, 2]))
    s.append(Scenario('vyukov-mt-2push-2pop-K2', MT, ['QSEL=1', 'QCAP=2'], threads=2, K=2, unwind=4, cover=[1, 2], allow_unwound=True))
    s.append(Scenario('vyukov-mt-full-K2', MT, ['QSEL=1', 'QCAP=2', 'PREFILL=1', 'NPUSH1=2', 'NPOP2=1'], threads=2, K=2, unwind=4, cover=[1, 2], allow_unwound=True))
    s.append(Scenario('vyukov-mt-rot3-K3', MT, ['QSEL=1', 'QCAP=2', 'ROT=3'], threads=2, K=3, unwind=4, cover=[1, 2], allow_unwound=True))
    s.append(Scenario('nikolaev-mt-1push-1pop-K2', MT, ['QSEL=2', 'QCAP=2', 'NPUSH1=1', 'NPOP2=1'], threads=2, K=2, unwind=4, cover=[1]))
    if tier == 'thorough':
        s.append(Scenario('vyukov-seq-cap4-rot5-n6', SEQ, ['QSEL=1', 'QCAP=4', 'NOPS=6', 'ROT=5'], unwind=8, cover=[1, 2]))
        s.append(Scenario('nikolaev-seq-cap2-n3', SEQ, ['QSEL=2', 'QCAP=2', 'NOPS=3'], unwind=6, cover=[1, 2]))
        s.append(Scenario('nikolaev-seq-cap3-rot2-n4', SEQ, ['QSEL=2', 'QCAP=3', 'NOPS=4', 'ROT=2'], unwind=6, cover=[1, 2]))
        s.append(Scenario('nikolaev-mt-2push-2pop-K2', MT, ['QSEL=2', 'QCAP=2'], threads=2, K=2, unwind=4, cover=[1, 2]))
        s.append(Scenario('nikolaev-mt-full-K3', MT, ['QSEL=2', 'QCAP=2', 'PREFILL=2', 'NPUSH1=1', 'NPOP2=1'], threads=2, K=3, unwind=4, cover=[1, 2]))
        s.append(Scenario('vyukov-mt-mixed-K3', MT, ['QSEL=1', 'QCAP=2', 'NPUSH1=1', 'NPOP1=1', 'NPUSH2=1', 'NPOP2=1'], threads=2, K=3, unwind=4, cover=[1], allow_unwound=True))
    return s
