"""C14 seqlock::load returns exactly some stored value, never torn or truncated."""
from xsym.scenario import Scenario

EXPLANATION = ('Sequential: store/update/load round trips with symbolic 32/64-bit words for element sizes that are and are not multiples of the '
               'word size. Concurrent: one writer (store, optional update) and one reader (two loads) with solver-chosen context switches at '
               'every memory access; each load must equal one of the written values in all bytes and loads must not go back in time.')
ASSUMPTIONS = ['element = NW words of 4 (align 4) or 8 bytes; slots in {1,2,3}; reader spin-waits (slots==1) beyond U iterations are outside the bound']
TIMEOUT = {'quick': 900, 'thorough': 1800}
SRC = 'C14/seqlock.cpp'


def scenarios(tier):
    s = []
    for nw in (3, 4, 5):
        s.append(Scenario('seq-%dB-slots1' % (nw * 4), SRC, ['NW=%d' % nw], unwind=6, cover=[1]))
    s.append(Scenario('seq-20B-slots2', SRC, ['NW=5', 'SLOTS=2'], unwind=6, cover=[1]))
    s.append(Scenario('seq-24B-align8-slots3', SRC, ['NW=3', 'ALIGN8', 'SLOTS=3'], unwind=6, cover=[1]))
    s.append(Scenario('mt-12B-slots1-K2', SRC, ['NW=3', 'MT'], threads=2, K=2, unwind=3, cover=[1, 2], allow_unwound=True))
    s.append(Scenario('mt-12B-slots2-K2', SRC, ['NW=3', 'MT', 'SLOTS=2'], threads=2, K=2, unwind=3, cover=[1, 2], allow_unwound=True))
    s.append(Scenario('mt-12B-slots1-update-K3', SRC, ['NW=3', 'MT', 'WITH_UPDATE'], threads=2, K=3, unwind=3, cover=[1, 2], allow_unwound=True))
    if tier == 'thorough':
        s.append(Scenario('mt-20B-slots2-update-K3', SRC, ['NW=5', 'MT', 'SLOTS=2', 'WITH_UPDATE'], threads=2, K=3, unwind=6, cover=[1, 2], allow_unwound=True))
        s.append(Scenario('mt-16B-slots3-update-K4', SRC, ['NW=4', 'MT', 'SLOTS=3', 'WITH_UPDATE'], threads=2, K=4, unwind=3, cover=[1, 2], allow_unwound=True))
        s.append(Scenario('mt-12B-2readers-K2', SRC, ['NW=3', 'MT', 'READER2', 'WITH_UPDATE'], threads=3, K=2, unwind=3, cover=[1, 2], allow_unwound=True))
    return s
