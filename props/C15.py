"""C15 smart-pointer algebra of marked_ptr / concurrent_ptr / guard_ptr."""
from xsym.scenario import Scenario

EXPLANATION = ('Symbolic sequences of guard operations (operation kind, guard index, cell index, target node and mark of every step are solver '
               'variables) on 3 guards and 2 marked cells against a reference model; marked_ptr round trip for every mark split as leaf kernels.')
ASSUMPTIONS = ['sequence length bounded (NOPS); 3 guards, 2 cells, 3 nodes, 2 mark bits']
TIMEOUT = {'quick': 900, 'thorough': 3000}
RECLS = {1: 'hp', 3: 'he', 5: 'ebr', 8: 'qsbr', 9: 'stamp', 10: 'lfrc', 2: 'hp-dyn', 4: 'he-dyn', 6: 'nebr', 7: 'debra', 11: 'lfrc-tl', 12: 'geb-lazy'}


def scenarios(tier):
    s = [Scenario('marked-ptr-roundtrip', 'C15/marked_ptr.cpp', [], unwind=2, cover=[1])]
    quick = [1, 3, 5, 10]
    for r in (quick if tier == 'quick' else sorted(RECLS)):
        n = 3 if tier == 'quick' else 4
        if r in (3, 4): n -= 1          # hazard_eras: longer sequences reach operations the engine cannot enumerate (inconclusive)
        s.append(Scenario('guard-algebra-%s-n%d' % (RECLS[r], n), 'C15/guard_algebra.cpp', ['RECL=%d' % r, 'HPK=5', 'NOPS=%d' % n], unwind=4, cover=[1, 2]))
    return s
