"""C16 lock-free operations finish in bounded solo steps from every reachable state."""
from xsym.scenario import Scenario

EXPLANATION = ('A disturber thread performs operations and may be stopped for good at ANY memory access (its final switch point is an '
               'unconstrained solver variable); the observed thread must then complete its operations: the obligation is that none of the '
               'observed thread\'s loops needs more than the unrolled number of iterations (U symbolic iterations) - posed to the solver as '
               'reachability of its unwinding flags.')
ASSUMPTIONS = ['2 threads, K=2 rounds (disturber prefix, observed prefix, disturber continues and stops anywhere, observed runs to completion)',
               'U=3-4 loop iterations per loop; operations documented as blocking (vyukov strong ops, seqlock slots==1, left_right::update) are not in the obligation set']
TIMEOUT = {'quick': 900, 'thorough': 2400}
PQ = 'C16/progress_queue.cpp'


def P(name, src, defs, K=2, unwind=3, **kw):
    return Scenario(name, src, defs, threads=2, K=K, unwind=unwind, stop=(1,), progress=(2,), allow_unwound=True, **kw)


def scenarios(tier):
    s = [P('msqueue-lfrc-pop-vs-stopped-push', PQ, ['QSEL=4', 'RECL=10'], cover=[2]),
         P('msqueue-lfrc-push-pop-vs-stopped-push', PQ, ['QSEL=4', 'RECL=10', 'OBS_PUSH', 'PREFILL=1'], cover=[2]),
         P('kirsch-bounded-k1-pop-vs-stopped-push', PQ, ['QSEL=3', 'QK=1', 'QCAP=2', 'PREFILL=1'], cover=[2]),
         P('kirsch-bounded-k2-pop-vs-stopped-pop-push', PQ, ['QSEL=3', 'QK=2', 'QCAP=2', 'PREFILL=2', 'DISTURB_POP'], cover=[2]),
         P('deque-steal-vs-stopped-owner', 'C16/progress_misc.cpp', ['WHAT=1'], cover=[2]),
         P('seqlock-slots2-load-vs-stopped-store', 'C16/progress_misc.cpp', ['WHAT=2'], cover=[2]),
         P('left-right-read-vs-stopped-update', 'C16/progress_misc.cpp', ['WHAT=3'], cover=[2]),
         P('hp-guard-acquire-vs-stopped-retire', 'C16/progress_misc.cpp', ['WHAT=4', 'RECL=1', 'HPK=1'], cover=[2]),
         Scenario('vyukov-map-lookup-colliding-nontrivial-keys', 'C16/progress_vmap.cpp', ['RECL=5'], threads=1, unwind=6, progress=(1,), allow_unwound=True, cover=[1],
                  note='sequential instance: 5 non-trivial keys with one hash value (3 bucket slots + 2 extension items), lookup of a symbolic key must return'),
         Scenario('vyukov-map-lookup-colliding-7keys', 'C16/progress_vmap.cpp', ['RECL=5', 'NKEYS=7'], threads=1, unwind=8, progress=(1,), allow_unwound=True, cover=[1])]
    if tier == 'thorough':
        s += [P('msqueue-lfrc-K3', PQ, ['QSEL=4', 'RECL=10', 'DISTURB_PUSH2'], K=3, cover=[2]),
              P('nikolaev-bounded-pop-vs-stopped-push', PQ, ['QSEL=2', 'QCAP=2', 'PREFILL=1'], cover=[2]),
              P('ramalhete-lfrc-pop-vs-stopped-push', PQ, ['QSEL=5', 'RECL=10'], cover=[2]),
              P('ebr-guard-acquire-vs-stopped-retire', 'C16/progress_misc.cpp', ['WHAT=4', 'RECL=5'], cover=[2]),
              P('lfrc-guard-acquire-vs-stopped-retire', 'C16/progress_misc.cpp', ['WHAT=4', 'RECL=10'], cover=[2])]
    return s
