"""C06 Kirsch k-FIFO queues conserve elements with at most k-1 overtaking."""
from xsym.scenario import Scenario

EXPLANATION = ('The random start index (rdtsc) is a fresh solver variable per call, so all start slots are covered. Sequential symbolic push/pop '
               'sequences vs a k-FIFO reference; concurrent producer/consumer scenarios (incl. the wrapped head/tail state) with conservation, '
               'no duplication and legality of the empty report.')
ASSUMPTIONS = ['k in {1,2}, segments in {1,2,3}; products above 2^16 (finding F11, needs 65536 segments) are outside the bound',
               'unbounded kirsch_kfifo_queue is checked with hazard_pointer only']
TIMEOUT = {'quick': 900, 'thorough': 2400}
SEQ, MT = 'Q/queue_seq.cpp', 'Q/queue_mt.cpp'


def scenarios(tier):
    s = [Scenario('bounded-seq-k1-seg2-n4', SEQ, ['QSEL=3', 'QK=1', 'QCAP=2', 'NOPS=4'], unwind=6, cover=[1, 2]),
         Scenario('bounded-mt-k1-K2', MT, ['QSEL=3', 'QK=1', 'QCAP=2'], threads=2, K=2, unwind=4, cover=[1, 2]),
         Scenario('bounded-mt-k2-wrap-rot1-K2', MT, ['QSEL=3', 'QK=2', 'QCAP=2', 'ROT=1', 'PREFILL=1', 'NPUSH1=1', 'NPOP2=2'], threads=2, K=2, unwind=4, cover=[1, 2])]
    if tier == 'thorough':
        s += [Scenario('bounded-seq-k2-seg2-rot1-n4', SEQ, ['QSEL=3', 'QK=2', 'QCAP=2', 'NOPS=4', 'ROT=1'], unwind=6, cover=[1, 2]),
              Scenario('bounded-mt-k2-wrap-rot3-K2', MT, ['QSEL=3', 'QK=2', 'QCAP=2', 'ROT=3', 'PREFILL=1', 'NPUSH1=1', 'NPOP2=2'], threads=2, K=2, unwind=4, cover=[1, 2]),
              Scenario('bounded-seq-k2-seg3-rot2-n5', SEQ, ['QSEL=3', 'QK=2', 'QCAP=3', 'NOPS=5', 'ROT=2'], unwind=8, cover=[1, 2]),
              Scenario('bounded-mt-k2-K3', MT, ['QSEL=3', 'QK=2', 'QCAP=2', 'ROT=2', 'PREFILL=2', 'NPUSH1=2', 'NPOP2=2'], threads=2, K=3, unwind=4, cover=[1, 2]),
              Scenario('unbounded-seq-k2-hp-n3', SEQ, ['QSEL=7', 'QK=2', 'NOPS=3', 'RECL=1', 'HPK=3'], unwind=6, cover=[1, 2]),
              Scenario('unbounded-mt-k1-hp-K2', MT, ['QSEL=7', 'QK=1', 'RECL=1', 'HPK=3', 'NPUSH1=1', 'NPOP2=1'], threads=2, K=2, unwind=4, cover=[1])]
    return s
