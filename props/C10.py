"""C10 (partial) vyukov_hash_map: linearizable map incl. lock-free reads, for colliding keys with extension items."""
from xsym.scenario import Scenario

EXPLANATION = ('All keys collide in one bucket (3 slots + extension items). Sequential: after inserting 5 keys, one update whose key is a solver '
               'variable (erase / extract / emplace) followed by a lock-free lookup of a symbolic key, both compared with a reference map, and '
               'the map must stay usable (bucket lock released). Concurrent: a lock-free reader looks up a key that is present throughout while '
               'a writer erases / extracts another key of the same bucket (array slot or extension item) and then inserts a new key that recycles the freed '
               'item, all context switches symbolic (K=2, one scenario with K=3).')
ASSUMPTIONS = ['trivial int keys/values, capacity 128, reclaimer = epoch based; no traversal and no grow (iteration over 128 buckets and non-trivial keys '
               'exceed the engine: DESIGN.md 10.2); 2 threads, K=2-3; SC only']
TIMEOUT = {'quick': 900, 'thorough': 2400}
# the reader's walk over the extension chain may run into the free list of the extension bucket (10 items) when an item is
# unlinked under it: give that loop enough iterations that such executions stay inside the claim (unwinding assertion holds)
UM = {'*try_get_value*': 14}
SEQ, MT = 'C10/vmap_ops.cpp', 'C10/vmap_mt.cpp'


def scenarios(tier):
    s = [Scenario('seq-erase-symbolic-key', SEQ, ['RECL=5', 'UPD=1', 'NO_TRAVERSAL'], unwind=8, sym_loop_cap=400, cover=[1, 2]),
         Scenario('seq-extract-symbolic-key', SEQ, ['RECL=5', 'UPD=2', 'NO_TRAVERSAL'], unwind=8, sym_loop_cap=400, cover=[1, 2]),
         Scenario('seq-emplace-symbolic-key', SEQ, ['RECL=5', 'UPD=4', 'NO_TRAVERSAL'], unwind=8, sym_loop_cap=400, cover=[1, 2])]
    for rk, wk in ((5, 4), (4, 5), (3, 1), (5, 2)):
        s.append(Scenario('mt-lookup%d-vs-erase%d-K2' % (rk, wk), MT, ['RECL=5', 'RK=%d' % rk, 'WK=%d' % wk], threads=2, K=2, unwind=6, unwind_map=UM, cover=[1, 2]))
    for rk, wk in (((4, 5),) if tier == 'quick' else ((4, 5), (5, 4), (5, 2))):
        s.append(Scenario('mt-lookup%d-vs-erase%d-then-emplace-K2' % (rk, wk), MT, ['RECL=5', 'RK=%d' % rk, 'WK=%d' % wk, 'W_THEN_EMPLACE'], threads=2, K=2, unwind=6,
                          unwind_map=UM, cover=[1, 2]))
    s.append(Scenario('mt-lookup4-vs-erase5-K3', MT, ['RECL=5', 'RK=4', 'WK=5'], threads=2, K=3, unwind=6, unwind_map=UM, cover=[1, 2]))
    if tier == 'thorough':
        for rk, wk in ((4, 5), (3, 1), (6, 5)):
            s.append(Scenario('mt-lookup%d-vs-extract%d-K3' % (rk, wk), MT, ['RECL=5', 'NKEYS=6', 'RK=%d' % rk, 'WK=%d' % wk, 'W_EXTRACT'], threads=2, K=3, unwind=6, unwind_map=UM, cover=[1, 2], allow_unwound=True))
        s.append(Scenario('mt-lookup4-vs-erase4-K2', MT, ['RECL=5', 'RK=4', 'WK=4'], threads=2, K=2, unwind=6, unwind_map=UM, cover=[1, 2]))
    return s
