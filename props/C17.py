"""C17 dynamic threads: bookkeeping is recycled; exited threads never block or leak."""
from xsym.scenario import Scenario

EXPLANATION = ('Three thread generations (two scenario threads and the main thread) use the reclaimer and exit. Sequential generations: the '
               'number of heap allocations that are not harness nodes (= control blocks and their extensions) must not grow after the first '
               'generation, and the census of retired nodes must be exact across control-block reuse. Overlapping generations (hazard_pointer, '
               'K=2 rounds of solver-chosen context switches incl. inside thread exit and adoption): bounded bookkeeping, exact census, no use '
               'after free (engine lifetime oracle).')
ASSUMPTIONS = ['3 generations, <= 2 overlapping threads; the sequential-generation scenarios are deterministic (no solver variables; they are decided by '
               'constant folding in the engine) - the solver-decided part is the overlapping scenario; more generations / 3 overlapping threads are outside the bound']
TIMEOUT = {'quick': 900, 'thorough': 2400}
SRC = 'C17/generations.cpp'
NAMES = {1: 'hp-static', 2: 'hp-dynamic', 3: 'he-static', 4: 'he-dynamic', 5: 'ebr', 6: 'nebr', 7: 'debra', 8: 'qsbr', 9: 'stamp-it', 12: 'geb-lazy'}


def scenarios(tier):
    s = []
    for r in (1, 3, 5, 8, 9):
        s.append(Scenario('%s-sequential-generations' % NAMES[r], SRC, ['RECL=%d' % r, 'HPK=1', 'PUMP=%d' % (0 if r <= 4 else 4)], threads=2, mt=False, unwind=4, cover=[1]))
    s.append(Scenario('hp-static-overlapping-K2', SRC, ['RECL=1', 'HPK=1', 'OVERLAP'], threads=2, K=2, unwind=3, cover=[1]))
    if tier == 'thorough':
        for r in (2, 4, 6, 7, 12):
            s.append(Scenario('%s-sequential-generations' % NAMES[r], SRC, ['RECL=%d' % r, 'HPK=1', 'PUMP=%d' % (0 if r <= 4 else 4)], threads=2, mt=False, unwind=4, cover=[1]))
        s.append(Scenario('he-static-overlapping-K2', SRC, ['RECL=3', 'HPK=1', 'OVERLAP'], threads=2, K=2, unwind=3, cover=[1]))
        s.append(Scenario('hp-static-overlapping-K3', SRC, ['RECL=1', 'HPK=1', 'OVERLAP'], threads=2, K=3, unwind=3, cover=[1]))
    return s
