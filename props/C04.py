"""C04 michael_scott / ramalhete / nikolaev queues are linearizable FIFO queues."""
from xsym.scenario import Scenario

EXPLANATION = ('Producer/consumer threads on the real queue with solver-chosen context switches at every memory access; after a sequential drain: '
               'conservation, no duplication, per-producer FIFO order, and an empty report only if the queue could have been empty.')
ASSUMPTIONS = ['reclaimer = lock_free_ref_count (quick); quick tier: michael_scott_queue with up to 2 push || 2 pop, ramalhete_queue and nikolaev_queue with 1 push || 1 pop; '
               '2 push || 2 pop for those two in the thorough tier (7 min per scenario)',
               '2 threads, K=2-3 rounds, <= 2 operations per thread; SC only']
TIMEOUT = {'quick': 900, 'thorough': 3000}
MT = 'Q/queue_mt.cpp'


def scenarios(tier):
    s = [Scenario('ms-lfrc-1push-1pop-K2', MT, ['QSEL=4', 'RECL=10', 'NPUSH1=1', 'NPOP2=1'], threads=2, K=2, unwind=3, cover=[1, 2]),
         Scenario('ms-lfrc-2push-1pop-K2', MT, ['QSEL=4', 'RECL=10', 'NPUSH1=2', 'NPOP2=1'], threads=2, K=2, unwind=3, cover=[1, 2]),
         Scenario('ms-lfrc-prefill1-1push-2pop-K2', MT, ['QSEL=4', 'RECL=10', 'PREFILL=1', 'NPUSH1=1', 'NPOP2=2'], threads=2, K=2, unwind=3, cover=[1, 2])]
    # reachable since the engine changes of DESIGN.md 10.6 (before: millions of terms)
    s.append(Scenario('ramalhete-lfrc-1push-1pop-K2', MT, ['QSEL=5', 'RECL=10', 'NPUSH1=1', 'NPOP2=1'], threads=2, K=2, unwind=3, cover=[1, 2]))
    s.append(Scenario('nikolaev-lfrc-1push-1pop-K2', MT, ['QSEL=6', 'RECL=10', 'NPUSH1=1', 'NPOP2=1'], threads=2, K=2, unwind=3, cover=[1, 2]))
    # deterministic configuration instances of ramalhete_queue (decided by constant folding, replayed natively)
    s.append(Scenario('ramalhete-epn4-fifo-across-nodes', 'Q/queue_seq.cpp', ['QSEL=5', 'RECL=10', 'EPN=4', 'FIXED_SEQ=9'], unwind=4, cover=[1]))
    s.append(Scenario('ramalhete-epn22-fifo', 'Q/queue_seq.cpp', ['QSEL=5', 'RECL=10', 'EPN=22', 'FIXED_SEQ=5'], unwind=4, cover=[1],
                      note='entries_per_node divisible by the internal step size 11: known finding F5'))
    if tier == 'thorough':
        s += [Scenario('ms-lfrc-1push-1pop-K3', MT, ['QSEL=4', 'RECL=10', 'NPUSH1=1', 'NPOP2=1'], threads=2, K=3, unwind=3, cover=[1, 2]),
              Scenario('ms-lfrc-2push-2pop-K3', MT, ['QSEL=4', 'RECL=10', 'NPUSH1=2', 'NPOP2=2'], threads=2, K=3, unwind=3, cover=[1, 2]),
              Scenario('ms-lfrc-producers-K2', MT, ['QSEL=4', 'RECL=10', 'NPUSH1=1', 'NPUSH2=1', 'NPOP2=1'], threads=2, K=2, unwind=3, cover=[1, 2]),
              Scenario('ramalhete-lfrc-2push-2pop-K2', MT, ['QSEL=5', 'RECL=10', 'NPUSH1=2', 'NPOP2=2'], threads=2, K=2, unwind=3, cover=[1, 2]),
              Scenario('nikolaev-lfrc-2push-2pop-K2', MT, ['QSEL=6', 'RECL=10', 'NPUSH1=2', 'NPOP2=2'], threads=2, K=2, unwind=3, cover=[1, 2]),
              Scenario('nikolaev-lfrc-1push-1pop-K3', MT, ['QSEL=6', 'RECL=10', 'NPUSH1=1', 'NPOP2=1'], threads=2, K=3, unwind=3, cover=[1, 2]),
              Scenario('ms-hp-1push-1pop-K2', MT, ['QSEL=4', 'RECL=1', 'HPK=3', 'NPUSH1=1', 'NPOP2=1'], threads=2, K=2, unwind=3, cover=[1, 2])]
    return s
