"""C03 (partial: C03a) race-freedom under the declared memory orders, over the explored SC interleavings."""
from xsym.scenario import Scenario

EXPLANATION = ('The concurrent scenarios of C12/C14/C13/C04/C01 are re-run with a happens-before oracle: vector clocks over operation positions '
               'are carried as terms; release/acquire/seq_cst operations, RMW release sequences and fences generate happens-before exactly as '
               'the memory orders written in the IR prescribe; every plain (non-atomic) access to a heap or global cell is checked against the '
               'last conflicting access of every other thread (FastTrack). A memory-order weakening that creates a C++11 data race on a plain '
               'object makes an obligation satisfiable.')
ASSUMPTIONS = ['only sequentially consistent interleavings are explored: weak executions in which the safety properties fail WITHOUT a data race on a plain '
               'object (store buffering effects between atomics, e.g. dropped seq_cst fences) are outside this check',
               'production build variant only (explicit fences); the TSAN_MEMORY_ORDER variant is not covered',
               'mixed atomic/plain accesses to one location and memcpy of payloads are not checked']
TIMEOUT = {'quick': 900, 'thorough': 2400}


def scenarios(tier):
    D = 'C12/deque_mt.cpp'
    s = [Scenario('deque-grow-vs-steal', D, ['OFF=2', 'PREPUSH=2', 'NPUSH=1', 'NPOP=0', 'NSTEAL=1', 'NORACE_ONLY'], threads=2, K=2, unwind=6, race=True, cover=[2]),
         Scenario('deque-grow-vs-steal-off1', D, ['OFF=1', 'PREPUSH=2', 'NPUSH=2', 'NPOP=0', 'NSTEAL=2', 'NORACE_ONLY'], threads=2, K=2, unwind=6, race=True, cover=[2]),
         Scenario('deque-push-pop-steal-K3', D, ['NORACE_ONLY'], threads=2, K=3, unwind=6, race=True, cover=[1, 2]),
         Scenario('seqlock-12B-slots1-K2', 'C14/seqlock.cpp', ['NW=3', 'MT'], threads=2, K=2, unwind=3, race=True, cover=[1, 2], allow_unwound=True),
         Scenario('seqlock-12B-slots2-K3', 'C14/seqlock.cpp', ['NW=3', 'MT', 'SLOTS=2', 'WITH_UPDATE'], threads=2, K=3, unwind=3, race=True, cover=[1, 2], allow_unwound=True),
         Scenario('left-right-2updates-K3', 'C13/left_right.cpp', ['NUPDATES=2'], threads=2, K=3, unwind=3, race=True, cover=[1, 2], allow_unwound=True),
         Scenario('hp-reader-writer-K2', 'C01/reclaim_mt.cpp', ['RECL=1', 'PUMP=0', 'HPK=1'], threads=2, K=2, unwind=3, race=True, cover=[1, 2], allow_unwound=True),
         Scenario('lfrc-reader-writer-K2', 'C01/reclaim_mt.cpp', ['RECL=10', 'PUMP=0'], threads=2, K=2, unwind=3, race=True, cover=[1, 2], allow_unwound=True)]
    if tier == 'thorough':
        s += [Scenario('msqueue-lfrc-1push-1pop-K2', 'Q/queue_mt.cpp', ['QSEL=4', 'RECL=10', 'NPUSH1=1', 'NPOP2=1'], threads=2, K=2, unwind=3, race=True, cover=[1, 2]),
              Scenario('vyukov-bounded-K2', 'Q/queue_mt.cpp', ['QSEL=1', 'QCAP=2'], threads=2, K=2, unwind=4, race=True, cover=[1, 2], allow_unwound=True),
              Scenario('kirsch-bounded-k2-K2', 'Q/queue_mt.cpp', ['QSEL=3', 'QK=2', 'QCAP=2', 'ROT=1', 'PREFILL=1', 'NPUSH1=1', 'NPOP2=2'], threads=2, K=2, unwind=4, race=True, cover=[1, 2]),
              Scenario('ebr-reader-writer-K2', 'C01/reclaim_mt.cpp', ['RECL=5', 'PUMP=3'], threads=2, K=2, unwind=3, race=True, cover=[1, 2], allow_unwound=True)]
    return s
