// C02 / C17: retired objects are destroyed exactly once by their own deleter, also across thread exit and control block
// reuse.  Thread 1 unlinks and retires node A (custom stateful deleter), retires a private node B and exits; thread 2
// guards the shared cell (possibly A) for a while, retires a private node C and exits.  Then (vp_final) a third
// generation thread context (the main thread) performs the public flush and the census is checked.
#include "common/recl.h"
#include "vp.h"
static int deleted[8];          // per node id: number of times its deleter ran
static int deleter_of[8];       // which deleter instance ran for it
struct Node;
struct Del {
  int tag;
  void operator()(Node* n) const;
};
struct Node : R::enable_concurrent_ptr<Node, 0, Del> {
  int id;
  explicit Node(int i) : id(i) {}
};
void Del::operator()(Node* n) const { deleted[n->id]++; deleter_of[n->id] = tag; delete n; }
using CP = R::concurrent_ptr<Node, 0>;
using GP = CP::guard_ptr;
using MP = CP::marked_ptr;
static CP cell;
#ifdef CROSS
static CP cell2;
#endif
#ifndef PUMP
#define PUMP 3
#endif
static void pump(int n) { for (int i = 0; i < n; ++i) { GP g; g.acquire(cell); } }
static void retire_private(int id) { Node* n = new Node(id); GP g{MP(n)}; g.reclaim(Del{100 + id}); }
extern "C" void vp_setup() {
  cell.store(new Node(1));
#ifdef CROSS
  cell2.store(new Node(6));
#endif
}
static void role_a() {
#if defined(CROSS) && !defined(HOLDER3)
  GP hold; hold.acquire(cell2);        // keeps thread 2's retired node pending until the end of this function
#endif
  Node* n = new Node(4);
  GP g; g.acquire(cell); MP e = g;
  if (cell.compare_exchange_strong(e, MP(n))) { g.reclaim(Del{101}); vp_cover(1); } else { g.reset(); delete n; }
  retire_private(2);
  pump(PUMP);
}
static void role_b() {
#ifdef CROSS
#ifndef HOLDER3
  GP hold; hold.acquire(cell);         // keeps thread 1's retired node pending until the end of this function
#endif
  { Node* n7 = new Node(7); GP g; g.acquire(cell2); MP e = g;
    if (cell2.compare_exchange_strong(e, MP(n7))) g.reclaim(Del{106}); else { g.reset(); delete n7; } }
#else
  { GP g; g.acquire(cell); if (g) vp_assert(g->id == 1 || g->id == 4, 1); }
#endif
  retire_private(3);
  pump(PUMP);
  vp_cover(2);
}
extern "C" void vp_final() {
  // public-API flush by a later thread generation: a few guarded accesses and one more retirement
  pump(PUMP + 1);
  retire_private(5);
  pump(PUMP + 1);
#ifdef FLUSH_TWICE
  retire_private(6);
  pump(PUMP + 1);
#endif
  vp_assert(deleted[1] == 1 && deleter_of[1] == 101, 10);       // A: exactly once, by its own deleter
  vp_assert(deleted[2] == 1 && deleter_of[2] == 102, 11);
  vp_assert(deleted[3] == 1 && deleter_of[3] == 103, 12);
  vp_assert(deleted[4] == 0, 13);                                // still published
#ifdef CROSS
  vp_assert(deleted[6] == 1 && deleter_of[6] == 106, 14);
#endif
  for (int i = 1; i < 8; ++i) vp_assert(deleted[i] <= 1, 20 + i);
}

#ifndef HOLDER3
extern "C" void vp_thread1() { role_a(); }
extern "C" void vp_thread2() { role_b(); }
#else
extern "C" void vp_thread2() { role_a(); }
extern "C" void vp_thread3() { role_b(); }
// first thread: holds guards on both cells for its whole life, so that both retiring threads exit with a pending node
// (two concurrent hand-overs of pending nodes to the global list)
extern "C" void vp_thread1() {
  GP h1; h1.acquire(cell);
  GP h2; h2.acquire(cell2);
  if (h1) vp_assert(h1->id >= 1, 2);
  if (h2) vp_assert(h2->id >= 1, 3);
}
#endif
