// C10 sequential: NKEYS colliding trivial keys (3 bucket slots + extension items), then NUPD updates whose kind
// (erase / extract / emplace / get_or_emplace) and key are solver variables, each followed by lock-free lookups of a
// symbolic key and of the updated key, compared with a reference map.  No traversal (iteration over the 128 buckets
// is what the engine cannot finish; see DESIGN.md 10.2).
#include "common/recl.h"
#include <xenium/vyukov_hash_map.hpp>
#include "vp.h"
#ifndef NKEYS
#define NKEYS 5
#endif
#ifndef NUPD
#define NUPD 2
#endif
struct KHash { std::size_t operator()(int) const { return 0; } };
using M = xenium::vyukov_hash_map<int, int, xp::reclaimer<R>, xp::hash<KHash>>;
extern "C" void vp_thread1() {
  M* m = new M(128);
  bool in[NKEYS + 3]; int val[NKEYS + 3];
  for (int k = 0; k < NKEYS + 3; ++k) { in[k] = false; val[k] = 0; }
  for (int k = 1; k <= NKEYS; ++k) { m->emplace(k, k * 10); in[k] = true; val[k] = k * 10; }
  for (int u = 0; u < NUPD; ++u) {
    unsigned kind = (unsigned)vp_range(10 + u, 0, 3);
    int e = (int)vp_range(20 + u, 1, NKEYS + 2);
    if (kind == 0) { bool r = m->erase(e); vp_assert(r == in[e], 100); in[e] = false; vp_cover(1); }
    else if (kind == 1) { M::accessor a; bool r = m->extract(e, a); vp_assert(r == in[e], 101); if (r && in[e]) vp_assert(*a == val[e], 102); in[e] = false; vp_cover(2); }
    else if (kind == 2) { bool r = m->emplace(e, e * 10 + 1 + u); vp_assert(r == !in[e], 103); if (r) { in[e] = true; val[e] = e * 10 + 1 + u; } vp_cover(3); }
    else { auto r = m->get_or_emplace(e, e * 10 + 5); vp_assert(r.second == !in[e], 104); if (r.second) { in[e] = true; val[e] = e * 10 + 5; } vp_assert(*r.first == val[e], 105); vp_cover(4); }
    int k = (int)vp_range(30 + u, 1, NKEYS + 2);
    M::accessor a;
    bool r = m->try_get_value(k, a);
    vp_assert(r == in[k], 110);
    if (r && in[k]) vp_assert(*a == val[k], 111);
    M::accessor b;
    bool r2 = m->try_get_value(e, b);
    vp_assert(r2 == in[e], 112);
  }
  vp_cover(5);
}
