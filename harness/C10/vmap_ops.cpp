// C10/C11 sequential (reduced): NKEYS colliding keys are inserted (array slots + extension items), then ONE update whose
// kind and key are solver variables (erase / extract / erase through iterator / emplace of a new key / nothing), then a
// lookup of a symbolic key and a full traversal are compared with the reference.
#include "common/recl.h"
#include <xenium/vyukov_hash_map.hpp>
#include "vp.h"
#ifndef NKEYS
#define NKEYS 5
#endif
#ifdef NONTRIVIAL_KEY
struct Key {
  int v;
  Key(int x = 0) : v(x) {}
  Key(const Key& o) : v(o.v) {}
  Key& operator=(const Key& o) { v = o.v; return *this; }
  bool operator==(const Key& o) const { return v == o.v; }
};
static int kv(const Key& k) { return k.v; }
#else
using Key = int;
static int kv(int k) { return k; }
#endif
struct KHash { std::size_t operator()(const Key&) const { return 0; } };
using M = xenium::vyukov_hash_map<Key, int, xp::reclaimer<R>, xp::hash<KHash>>;
extern "C" void vp_thread1() {
  M* m = new M(128);
  bool in[NKEYS + 2];
  for (int k = 0; k <= NKEYS + 1; ++k) in[k] = false;
  for (int k = 1; k <= NKEYS; ++k) { m->emplace(Key(k), k * 10); in[k] = true; }
#ifndef UPD
#define UPD 1
#endif
  int e = (int)vp_range(1, 1, NKEYS + 1);
#if UPD == 1
  { bool r = m->erase(Key(e)); vp_assert(r == in[e], 100); in[e] = false; }
#elif UPD == 2
  { M::accessor a; bool r = m->extract(Key(e), a); vp_assert(r == in[e], 101); if (r) vp_assert(*a == e * 10, 102); in[e] = false; }
#elif UPD == 3
  { auto it = m->find(Key(e)); vp_assert((it != m->end()) == in[e], 103); if (it != m->end()) { m->erase(it); in[e] = false; } it.reset(); }
#elif UPD == 4
  { bool r = m->emplace(Key(e), e * 10); vp_assert(r == !in[e], 104); in[e] = true; }
#endif
  vp_cover(1);
  int k = (int)vp_range(2, 1, NKEYS + 1);
  M::accessor a;
  bool r = m->try_get_value(Key(k), a);
  vp_assert(r == in[k], 110);
  if (r && in[k]) vp_assert(*a == k * 10, 111);
#ifndef NO_TRAVERSAL
  int seen[NKEYS + 2]; for (int j = 0; j <= NKEYS + 1; ++j) seen[j] = 0;
  int cnt = 0;
  for (auto it = m->begin(); it != m->end(); ++it) { int kk = kv((*it).first); if (kk >= 1 && kk <= NKEYS + 1) seen[kk]++; if (++cnt > NKEYS + 2) break; }
  for (int j = 1; j <= NKEYS + 1; ++j) vp_assert(seen[j] == (in[j] ? 1 : 0), 120);
#endif
  // the map stays usable: every bucket lock was released
  bool r2 = m->emplace(Key(NKEYS + 1), 7);
  vp_assert(r2 == !in[NKEYS + 1], 121);
  vp_cover(2);
}
