// C10 concurrent: a lock-free reader looks up key RK while a writer erases / extracts / inserts key WK in the same bucket
// (all keys collide: 3 bucket slots + extension items).  RK is present during the whole run unless RK == WK.
#include "common/recl.h"
#include <xenium/vyukov_hash_map.hpp>
#include "vp.h"
#ifndef NKEYS
#define NKEYS 5
#endif
#ifndef RK
#define RK 5
#endif
#ifndef WK
#define WK 4
#endif
struct KHash { std::size_t operator()(int) const { return 0; } };
using M = xenium::vyukov_hash_map<int, int, xp::reclaimer<R>, xp::hash<KHash>>;
static M* m;
extern "C" void vp_setup() { m = new M(128); for (int k = 1; k <= NKEYS; ++k) m->emplace(k, k * 10); }
extern "C" void vp_thread1() {       // lock-free reader
  M::accessor a;
  bool r = m->try_get_value(RK, a);
#if RK != WK
  vp_assert(r, 1);                   // present throughout the call
  if (r) vp_assert(*a == RK * 10, 2);
#else
  if (r) vp_assert(*a == RK * 10, 3);
#endif
  vp_cover(1);
}
extern "C" void vp_thread2() {       // writer
#ifdef W_EXTRACT
  M::accessor a; bool r = m->extract(WK, a); vp_assert(r && *a == WK * 10, 4);
#else
  bool r = m->erase(WK); vp_assert(r, 4);
#endif
#ifdef W_THEN_EMPLACE
  // the freed extension item / array slot is recycled for a new key while the reader may still stand on it
  bool r2 = m->emplace(NKEYS + 1, (NKEYS + 1) * 10); vp_assert(r2, 5);
#endif
  vp_cover(2);
}
extern "C" void vp_final() {
  M::accessor a;
  vp_assert(!m->try_get_value(WK, a), 10);
  for (int k = 1; k <= NKEYS; ++k) if (k != WK) { M::accessor b; bool r = m->try_get_value(k, b); vp_assert(r && *b == k * 10, 11); }
#ifdef W_THEN_EMPLACE
  { M::accessor c; bool r = m->try_get_value(NKEYS + 1, c); vp_assert(r && *c == (NKEYS + 1) * 10, 12); }
#endif
}
