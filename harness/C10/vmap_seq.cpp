// C10/C11 sequential: vyukov_hash_map with a constant hash (all keys collide in one bucket -> extension items).
// A concrete prefix inserts PRE keys, then a symbolic sequence of operations (operation and key of every step are
// solver variables) is compared with a reference map; iterator traversal / erase(iterator) included (C11).
#include "common/recl.h"
#include <xenium/vyukov_hash_map.hpp>
#include "vp.h"
#ifndef NOPS
#define NOPS 2
#endif
#ifndef PRE
#define PRE 5
#endif
#ifndef CAPACITY
#define CAPACITY 128
#endif
#ifndef NKEYS
#define NKEYS 6
#endif
#ifdef NONTRIVIAL_KEY
struct Key {
  int v;
  Key(int x = 0) : v(x) {}
  Key(const Key& o) : v(o.v) {}            // user provided copy -> not trivially copyable -> stored through a pointer
  Key& operator=(const Key& o) { v = o.v; return *this; }
  bool operator==(const Key& o) const { return v == o.v; }
};
struct KHash { std::size_t operator()(const Key&) const { return 0; } };
using M = xenium::vyukov_hash_map<Key, int, xp::reclaimer<R>, xp::hash<KHash>>;
#else
using Key = int;
struct KHash { std::size_t operator()(int) const { return 0; } };
using M = xenium::vyukov_hash_map<int, int, xp::reclaimer<R>, xp::hash<KHash>>;
#endif
static int keyval(int k) { return k * 10 + 1; }
extern "C" void vp_thread1() {
  M* m = new M(CAPACITY);
  bool in[NKEYS + 1]; int val[NKEYS + 1];
  for (int k = 0; k <= NKEYS; ++k) { in[k] = false; val[k] = 0; }
  for (int k = 1; k <= PRE; ++k) { bool r = m->emplace(Key(k), keyval(k)); vp_assert(r, 90); in[k] = true; val[k] = keyval(k); }
  for (unsigned st = 0; st < NOPS; ++st) {
    unsigned op = (unsigned)vp_range(10 + st, 0, 4);
    int k = (int)vp_range(30 + st, 1, NKEYS);
    switch (op) {
      case 0: { bool r = m->emplace(Key(k), keyval(k) + 1); vp_assert(r == !in[k], 100); if (r) { in[k] = true; val[k] = keyval(k) + 1; } vp_cover(1); break; }
      case 1: { bool r = m->erase(Key(k)); vp_assert(r == in[k], 101); in[k] = false; vp_cover(2); break; }
      case 2: { M::accessor a; bool r = m->try_get_value(Key(k), a); vp_assert(r == in[k], 102); if (r && in[k]) vp_assert(*a == val[k], 103); vp_cover(3); break; }
      case 3: { M::accessor a; bool r = m->extract(Key(k), a); vp_assert(r == in[k], 104); if (r && in[k]) vp_assert(*a == val[k], 105); in[k] = false; break; }
      default: {   // find + erase(iterator)
        auto it = m->find(Key(k));
        vp_assert((it != m->end()) == in[k], 106);
        if (it != m->end()) { m->erase(it); in[k] = false; vp_cover(4); }
        it.reset();
        break;
      }
    }
    // every key agrees with the reference (lock-free lookup), and a full traversal yields each element exactly once
    for (int j = 1; j <= NKEYS; ++j) {
      M::accessor a; bool r = m->try_get_value(Key(j), a);
      vp_assert(r == in[j], 110);
      if (r && in[j]) vp_assert(*a == val[j], 111);
    }
    int seen[NKEYS + 1]; for (int j = 0; j <= NKEYS; ++j) seen[j] = 0;
    int cnt = 0;
    for (auto it = m->begin(); it != m->end(); ++it) {
#ifdef NONTRIVIAL_KEY
      int kk = (*it).first.v;
#else
      int kk = (*it).first;
#endif
      if (kk >= 1 && kk <= NKEYS) seen[kk]++;
      if (++cnt > NKEYS + 1) break;
    }
    for (int j = 1; j <= NKEYS; ++j) vp_assert(seen[j] == (in[j] ? 1 : 0), 120);
  }
  delete m;
}
