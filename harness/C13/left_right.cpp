// C13: left_right - a read functor never runs on an instance that an update is modifying; reads are monotone.
#include <xenium/left_right.hpp>
#include "vp.h"
struct Pair { int a = 0; int b = 0; };
static xenium::left_right<Pair>* lr;
#ifndef NUPDATES
#define NUPDATES 2
#endif
#ifndef NREADS
#define NREADS 1
#endif
extern "C" void vp_setup() { lr = new xenium::left_right<Pair>(); }
extern "C" void vp_thread1() {   // reader
  int last = 0;
  for (int i = 0; i < NREADS; ++i) {
    Pair p = lr->read([](const Pair& x) { Pair r; r.a = x.a; r.b = x.b; return r; });
    vp_assert(p.a == p.b, 1);               // never a mixture of two states
    vp_assert(p.a >= last, 2);              // never back in time
    vp_assert(p.a <= NUPDATES, 3);
    last = p.a;
  }
  vp_cover(1);
}
extern "C" void vp_thread2() {   // writer
  for (int i = 0; i < NUPDATES; ++i) lr->update([](Pair& x) { ++x.a; ++x.b; });
  vp_cover(2);
}
#ifdef READER2
extern "C" void vp_thread3() {
  Pair p = lr->read([](const Pair& x) { Pair r; r.a = x.a; r.b = x.b; return r; });
  vp_assert(p.a == p.b, 4);
}
#endif
extern "C" void vp_final() {
  Pair p = lr->read([](const Pair& x) { return x; });
  vp_assert(p.a == NUPDATES && p.b == NUPDATES, 10);     // every update applied exactly once to the visible instance
  lr->update([](Pair& x) { ++x.a; ++x.b; });
  Pair q = lr->read([](const Pair& x) { return x; });
  vp_assert(q.a == NUPDATES + 1 && q.b == NUPDATES + 1, 11);   // ... and to the other instance as well
}
