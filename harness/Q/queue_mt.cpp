// Concurrent queue check (C04/C05/C06/C07): producers push distinct values, consumers pop; afterwards the queue is
// drained sequentially.  Oracle (identity comparisons only): nothing invented, nothing duplicated, nothing lost,
// per-producer FIFO order (k-FIFO: at most k-1 overtakes), 'empty' only if the queue could have been empty, and for
// bounded queues 'full' only if it could have been full (in-flight operations counted as the property allows).
#include "common/queues.h"
#include "vp.h"
#if defined(Q_KFIFO)
#define KK QK
#else
#define KK 1
#endif
static Q* q;
#ifndef PREFILL
#define PREFILL 0
#endif
#ifndef NPUSH1
#define NPUSH1 2
#endif
#ifndef NPOP2
#define NPOP2 2
#endif
#ifndef NPUSH2
#define NPUSH2 0
#endif
#ifndef NPOP1
#define NPOP1 0
#endif
#ifndef ROT
#define ROT 0
#endif
// values: prefill 11.., thread1 pushes 1.., thread2 pushes 6..
static int popped1[4], popped2[4], drained[12];
static unsigned np1, np2, nd;
static bool pushed1[4], pushed2[4], empty_seen2, empty_seen1, full_seen1, full_seen2;
static unsigned pushes_done_before_empty2;     // number of thread-1 pushes completed when thread 2 saw 'empty'
static std::atomic<unsigned> done1;            // completed pushes of thread 1 (monotone counter, written by thread 1; atomic so that the
                                               // harness itself is race free under the C03 oracle; relaxed = no synchronisation added)

extern "C" void vp_setup() {
  q = new Q();
  for (int i = 0; i < ROT; ++i) { q->push(15); int v; q->pop(v); }
  for (int i = 0; i < PREFILL; ++i) { bool ok = q->push(11 + i); vp_assert(ok, 1); }
}
extern "C" void vp_thread1() {
  for (int i = 0; i < NPUSH1; ++i) {
    bool ok = q->push(1 + i);
    pushed1[i] = ok;
    if (!ok) full_seen1 = true;
    done1.store(done1.load(std::memory_order_relaxed) + 1, std::memory_order_relaxed);
  }
  for (int i = 0; i < NPOP1; ++i) { int v = -1; if (q->pop(v)) popped1[np1++] = v; else empty_seen1 = true; }
  vp_cover(1);
}
extern "C" void vp_thread2() {
  for (int i = 0; i < NPUSH2; ++i) { bool ok = q->push(6 + i); pushed2[i] = ok; if (!ok) full_seen2 = true; }
  for (int i = 0; i < NPOP2; ++i) {
    int v = -1;
    unsigned before = done1.load(std::memory_order_relaxed);        // pushes of thread 1 that completed before this pop started
    if (q->pop(v)) { popped2[np2++] = v; vp_cover(2); }
    else {
      empty_seen2 = true;
      // 'empty' although (prefill + completed pushes) exceed everything popped so far by >= k -> not linearizable
#if NPOP1 == 0 && NPUSH2 == 0
      vp_assert(PREFILL + before < np2 + KK, 30);
#endif
      vp_cover(3);
    }
  }
}
static int count_of(int v) {
  int c = 0;
  for (unsigned i = 0; i < np1; ++i) c += popped1[i] == v;
  for (unsigned i = 0; i < np2; ++i) c += popped2[i] == v;
  for (unsigned i = 0; i < nd; ++i) c += drained[i] == v;
  return c;
}
static int pos_in(const int* a, unsigned n, int v) { for (unsigned i = 0; i < n; ++i) if (a[i] == v) return (int)i; return -1; }
extern "C" void vp_final() {
  int v = -1;
  while (nd < 12 && q->pop(v)) drained[nd++] = v;
  vp_assert(!q->pop(v), 10);
  unsigned accepted = PREFILL;
  for (int i = 0; i < NPUSH1; ++i) accepted += pushed1[i];
  for (int i = 0; i < NPUSH2; ++i) accepted += pushed2[i];
  vp_assert(np1 + np2 + nd == accepted, 11);                       // conservation
  for (int i = 0; i < PREFILL; ++i) vp_assert(count_of(11 + i) == 1, 12);
  for (int i = 0; i < NPUSH1; ++i) vp_assert(count_of(1 + i) == (pushed1[i] ? 1 : 0), 13);
  for (int i = 0; i < NPUSH2; ++i) vp_assert(count_of(6 + i) == (pushed2[i] ? 1 : 0), 14);
#if KK == 1
  // FIFO: a single consumer sees each producer's values in order; what is drained later is younger
  for (unsigned i = 0; i + 1 < np2; ++i) {
    bool same_src = (popped2[i] >= 11) == (popped2[i + 1] >= 11) && (popped2[i] >= 6 && popped2[i] < 11) == (popped2[i + 1] >= 6 && popped2[i + 1] < 11);
    if (same_src) vp_assert(popped2[i] < popped2[i + 1], 20);
    if (popped2[i + 1] >= 11) vp_assert(popped2[i] >= 11, 21);    // prefilled values leave before anything pushed later
  }
  for (unsigned i = 0; i + 1 < nd; ++i) {
    bool same_src = (drained[i] >= 11) == (drained[i + 1] >= 11) && (drained[i] >= 6 && drained[i] < 11) == (drained[i + 1] >= 6 && drained[i + 1] < 11);
    if (same_src) vp_assert(drained[i] < drained[i + 1], 22);
  }
  for (unsigned i = 0; i < np2; ++i) for (unsigned j = 0; j < nd; ++j) {
    bool same_src = (popped2[i] >= 11) == (drained[j] >= 11) && (popped2[i] >= 6 && popped2[i] < 11) == (drained[j] >= 6 && drained[j] < 11);
    if (same_src) vp_assert(popped2[i] < drained[j], 23);
  }
#endif
#if defined(Q_BOUNDED) && QSEL != 3
  // a push may only have failed if the queue could have been full: with C the capacity, at least C elements must
  // have been accepted before/around it (in-flight operations count for nikolaev_bounded_queue)
  if (full_seen1 || full_seen2) vp_assert(accepted + (QSEL == 2 ? (NPOP2 + NPOP1) : 0) >= QCAP, 40);
#endif
  delete q;
}
