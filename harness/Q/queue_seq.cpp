// Sequential queue check (C04/C05/C06): after ROT push/pop pairs (moves the ring / node indices), a symbolic operation
// sequence (every op is a solver variable) is compared with a reference FIFO (k-FIFO for the Kirsch queues, bounded
// where applicable); finally the queue is drained.
#include "common/queues.h"
#include "vp.h"
#ifndef NOPS
#define NOPS 4
#endif
#ifndef ROT
#define ROT 0
#endif
#if defined(Q_KFIFO)
#define KK QK
#else
#define KK 1
#endif
#if defined(Q_BOUNDED)
#if QSEL == 3
#define CAPACITY (QK * QCAP)
#else
#define CAPACITY QCAP
#endif
#endif
#ifdef FIXED_SEQ
// deterministic instance: push FIXED_SEQ values, pop them all, strict FIFO expected (configuration check)
extern "C" void vp_thread1() {
  Q* q = new Q();
  for (int i = 1; i <= FIXED_SEQ; ++i) { bool ok = q->push(i % 15 + 1); vp_assert(ok, 200); }
  for (int i = 1; i <= FIXED_SEQ; ++i) { int v = -1; bool ok = q->pop(v); vp_assert(ok, 201); vp_assert(v == i % 15 + 1, 202); }
  int v = -1; vp_assert(!q->pop(v), 203);
  vp_cover(1);
  delete q;
}
#else
extern "C" void vp_thread1() {
  Q* q = new Q();
  for (int i = 0; i < ROT; ++i) {
    bool ok = q->push(15);
    vp_assert(ok, 90);
    int v = 0;
    ok = q->pop(v);
    vp_assert(ok && v == 15, 91);
  }
  int ref[NOPS + 1]; unsigned n = 0;           // reference content, oldest first
  int next = 1;
  for (unsigned s = 0; s < NOPS; ++s) {
    unsigned op = (unsigned)vp_range(10 + s, 0, 1);
    if (op == 0) {
      bool ok = q->push(next);
#ifdef Q_BOUNDED
#if QSEL == 3
      // k-FIFO: full may be reported once more than (segments-1)*k elements are stored, never on fewer
      if (!ok) vp_assert(n >= (QCAP - 1) * QK + 1, 100);
      if (n < (QCAP - 1) * QK + 1) vp_assert(ok, 101);
#else
      vp_assert(ok == (n < CAPACITY), 100);
#endif
#else
      vp_assert(ok, 100);
#endif
      if (ok) { ref[n++] = next; vp_cover(1); }
      ++next;
    } else {
      int v = -1;
      bool ok = q->pop(v);
      vp_assert(ok == (n > 0), 110);            // sequentially: empty exactly when nothing is stored
      if (ok && n > 0) {
        // must be one of the KK oldest
        unsigned pos = NOPS + 5;
        for (unsigned i = 0; i < n && i < KK; ++i) if (ref[i] == v) pos = i;
        vp_assert(pos < n, 111);
        if (pos < n) { for (unsigned i = pos; i + 1 < n; ++i) ref[i] = ref[i + 1]; --n; }
        vp_cover(2);
      }
    }
  }
  // drain: exactly the remaining elements
  while (n > 0) {
    int v = -1;
    bool ok = q->pop(v);
    vp_assert(ok, 120);
    if (!ok) break;
    unsigned pos = NOPS + 5;
    for (unsigned i = 0; i < n && i < KK; ++i) if (ref[i] == v) pos = i;
    vp_assert(pos < n, 121);
    if (pos >= n) break;
    for (unsigned i = pos; i + 1 < n; ++i) ref[i] = ref[i + 1];
    --n;
  }
  int v = -1;
  vp_assert(!q->pop(v), 122);
  delete q;
}
#endif
