// C07: queues own their elements - each accepted value is handed to exactly one pop or destroyed exactly once when the
// queue is destroyed; a rejected value stays with the caller.  Elements are owning types whose destructor counts.
#include "common/recl.h"
#include <xenium/michael_scott_queue.hpp>
#include <xenium/ramalhete_queue.hpp>
#include <xenium/nikolaev_queue.hpp>
#include <xenium/nikolaev_bounded_queue.hpp>
#include <xenium/vyukov_bounded_queue.hpp>
#include <xenium/kirsch_bounded_kfifo_queue.hpp>
#include <memory>
#include "vp.h"
static bool byvalue_rejected[8];
static int destroyed[8];      // per token id: number of destructor runs of the *owning* object
struct Tok {
  int id;
  explicit Tok(int i) : id(i) {}
  Tok(Tok&& o) noexcept : id(o.id) { o.id = 0; }
  Tok& operator=(Tok&& o) noexcept { if (this != &o) { if (id > 0) destroyed[id]++; id = o.id; o.id = 0; } return *this; }
  Tok(const Tok&) = delete;
  ~Tok() { if (id > 0) destroyed[id]++; }
};
struct TokDel { void operator()(Tok* t) const { delete t; } };
using UP = std::unique_ptr<Tok>;
#ifndef QCAP
#define QCAP 2
#endif
#ifndef OSEL
#define OSEL 1
#endif
#if OSEL == 1       // vyukov_bounded_queue<Tok>  (non-trivial movable element)
using QT = xenium::vyukov_bounded_queue<Tok>;
static QT* mk() { return new QT(QCAP); }
static bool push(QT& q, int id) { Tok t(id); bool ok = q.try_push_strong(std::move(t)); if (!ok) vp_assert(t.id == id, 50); t.id = 0; return ok; }   // rejected: still with the caller (then disarmed)
static int pop(QT& q) { Tok t(0); if (!q.try_pop_strong(t)) return 0; int r = t.id; t.id = 0; return r; }
#elif OSEL == 2     // kirsch_bounded_kfifo_queue<unique_ptr<Tok>>
using QT = xenium::kirsch_bounded_kfifo_queue<UP>;
static QT* mk() { return new QT(1, QCAP); }
// try_push takes its argument by value: a rejected unique_ptr was already moved into the parameter and is destroyed
// there (exactly once) - it cannot be 'left with the caller'; the census below accounts for that
static bool push(QT& q, int id) { UP p(new Tok(id)); bool ok = q.try_push(std::move(p)); if (!ok && p) { p->id = 0; } if (!ok) byvalue_rejected[id] = !p; return ok; }
static int pop(QT& q) { UP p; if (!q.try_pop(p)) return 0; int r = p->id; p->id = 0; return r; }
#elif OSEL == 3     // michael_scott_queue<unique_ptr<Tok>>
using QT = xenium::michael_scott_queue<UP, xp::reclaimer<R>>;
static QT* mk() { return new QT(); }
static bool push(QT& q, int id) { q.push(UP(new Tok(id))); return true; }
static int pop(QT& q) { UP p; if (!q.try_pop(p)) return 0; int r = p->id; p->id = 0; return r; }
#elif OSEL == 4     // nikolaev_bounded_queue<unique_ptr<Tok>>
using QT = xenium::nikolaev_bounded_queue<UP>;
static QT* mk() { return new QT(QCAP); }
// try_push takes its argument by value: a rejected unique_ptr was already moved into the parameter and is destroyed
// there (exactly once) - it cannot be 'left with the caller'; the census below accounts for that
static bool push(QT& q, int id) { UP p(new Tok(id)); bool ok = q.try_push(std::move(p)); if (!ok && p) { p->id = 0; } if (!ok) byvalue_rejected[id] = !p; return ok; }
static int pop(QT& q) { UP p; if (!q.try_pop(p)) return 0; int r = p->id; p->id = 0; return r; }
#elif OSEL == 5     // ramalhete_queue<unique_ptr<Tok>>
using QT = xenium::ramalhete_queue<UP, xp::reclaimer<R>, xp::entries_per_node<2>, xp::pop_retries<0>>;
static QT* mk() { return new QT(); }
static bool push(QT& q, int id) { q.push(UP(new Tok(id))); return true; }
static int pop(QT& q) { UP p; if (!q.try_pop(p)) return 0; int r = p->id; p->id = 0; return r; }
#endif
static QT* q;
static bool acc[8]; static int got[8];
#ifndef NPUSH1
#define NPUSH1 2
#endif
#ifndef NPUSH2
#define NPUSH2 1
#endif
#ifndef NPOP2
#define NPOP2 1
#endif
extern "C" void vp_setup() { q = mk(); }
extern "C" void vp_thread1() { for (int i = 0; i < NPUSH1; ++i) acc[1 + i] = push(*q, 1 + i); vp_cover(1); }
extern "C" void vp_thread2() {
  for (int i = 0; i < NPUSH2; ++i) acc[4 + i] = push(*q, 4 + i);
  for (int i = 0; i < NPOP2; ++i) { int id = pop(*q); if (id > 0) got[id]++; }
  vp_cover(2);
}
extern "C" void vp_final() {
  delete q;        // destroys whatever is still inside
  for (int id = 1; id < 8; ++id) {
    bool used = (id <= NPUSH1) || (id >= 4 && id < 4 + NPUSH2);
    if (!used) continue;
    if (acc[id]) vp_assert(got[id] + destroyed[id] == 1, 10 + id);     // handed out XOR destroyed, exactly once
    else vp_assert(got[id] == 0 && destroyed[id] == (byvalue_rejected[id] ? 1 : 0), 20 + id);   // rejected: with the caller, or destroyed once with the by-value parameter
    vp_assert(got[id] <= 1, 30 + id);
  }
}
