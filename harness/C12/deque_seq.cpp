// C12 sequential: the deque starts at an ARBITRARY index offset (top == bottom == any 64-bit value, as
// after any amount of balanced prior traffic), then runs a symbolic operation sequence; differential
// oracle against a reference deque.  Private state is reached by re-declaring access in this TU only.
#include <atomic>
#include <cstdint>
#include <cassert>
#define private public
#include <xenium/chase_work_stealing_deque.hpp>
#undef private
#include <xenium/policy.hpp>
#include "vp.h"
#ifndef CAP
#define CAP 2
#endif
#ifndef NOPS
#define NOPS 6
#endif
using D = xenium::chase_work_stealing_deque<int, xenium::policy::capacity<CAP>>;
static int items[32];

extern "C" void vp_thread1() {
  D* d = new D();
  uint64_t off = vp_nondet(1);
#ifdef OFFMAX
  vp_assume(off <= OFFMAX);
#endif
  d->_top.store(off, std::memory_order_relaxed);
  d->_bottom.store(off, std::memory_order_relaxed);
  int* ref[NOPS + 2]; unsigned rt = 0, rb = 0;   // reference deque: ref[rt..rb)
  for (unsigned s = 0; s < NOPS; ++s) {
#ifdef PUSHFIRST
    unsigned op = s < PUSHFIRST ? 0 : (unsigned)vp_range(10 + s, 0, 2);   // forces growth, then symbolic mix
#else
    unsigned op = (unsigned)vp_range(10 + s, 0, 2);
#endif
    if (op == 0) {
      bool ok = d->try_push(&items[s]);
      vp_assert(ok, 110);
      ref[rb++] = &items[s];
    } else if (op == 1) {
      int* r = nullptr;
      bool ok = d->try_pop(r);
      if (rb == rt) vp_assert(!ok, 120);
      else { --rb; vp_assert(ok, 121); vp_assert(r == ref[rb], 122); vp_cover(1); }
    } else {
      int* r = nullptr;
      bool ok = d->try_steal(r);
      if (rb == rt) vp_assert(!ok, 130);
      else { vp_assert(ok, 131); vp_assert(r == ref[rt], 132); ++rt; vp_cover(2); }
    }
  }
  // drain: everything left comes out exactly once
  while (rb != rt) {
    int* r = nullptr;
    bool ok = d->try_pop(r);
    --rb;
    vp_assert(ok && r == ref[rb], 140);
  }
  int* r = nullptr;
  vp_assert(!d->try_pop(r), 141);
  delete d;
}
