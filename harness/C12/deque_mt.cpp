// C12 concurrent: owner pushes/pops while a thief steals; every pushed item must be handed out exactly once.
#include <atomic>
#include <cstdint>
#include <cassert>
#define private public
#include <xenium/chase_work_stealing_deque.hpp>
#undef private
#include <xenium/policy.hpp>
#include "vp.h"
#ifndef CAP
#define CAP 2
#endif
using D = xenium::chase_work_stealing_deque<int, xenium::policy::capacity<CAP>>;
static int items[8];
static D* d;
static int* got[8]; static unsigned ngot_owner, ngot_thief;
static int* stolen[4];

extern "C" void vp_setup() {
  d = new D();
#ifdef OFF
  d->_top.store(OFF, std::memory_order_relaxed); d->_bottom.store(OFF, std::memory_order_relaxed);
#endif
#ifdef PREPUSH
  for (int i = 0; i < PREPUSH; ++i) d->try_push(&items[4 + i]);
#endif
}
extern "C" void vp_thread1() {   // owner
#ifndef NPUSH
#define NPUSH 2
#endif
  for (int i = 0; i < NPUSH; ++i) { bool ok = d->try_push(&items[i]); vp_assert(ok, 1); }
#ifndef NPOP
#define NPOP 1
#endif
  for (int i = 0; i < NPOP; ++i) { int* r = nullptr; if (d->try_pop(r)) { got[ngot_owner++] = r; vp_cover(1); } }
}
extern "C" void vp_thread2() {   // thief
#ifndef NSTEAL
#define NSTEAL 1
#endif
  for (int i = 0; i < NSTEAL; ++i) { int* r = nullptr; if (d->try_steal(r)) { stolen[ngot_thief++] = r; vp_cover(2); } }
}
#ifdef THIEF2
static int* stolen2[4]; static unsigned ngot_thief2;
extern "C" void vp_thread3() {   // second thief
  for (int i = 0; i < NSTEAL; ++i) { int* r = nullptr; if (d->try_steal(r)) { stolen2[ngot_thief2++] = r; vp_cover(3); } }
}
#endif
extern "C" void vp_final() {
#ifdef NORACE_ONLY
  return;
#endif
  // drain what is left, then: every pushed item exactly once, nothing else (identity comparisons only)
  int* r = nullptr;
  unsigned n = ngot_owner;
  while (d->try_pop(r)) got[n++] = r;
  unsigned total = n + ngot_thief;
#ifdef THIEF2
  total += ngot_thief2;
#endif
  unsigned expect = NPUSH;
#ifdef PREPUSH
  expect += PREPUSH;
#endif
  vp_assert(total == expect, 10);
  for (int j = 0; j < 8; ++j) {
    bool pushed = j < NPUSH;
#ifdef PREPUSH
    pushed = pushed || (j >= 4 && j < 4 + PREPUSH);
#endif
    if (!pushed) continue;
    unsigned c = 0;
    for (unsigned i = 0; i < n; ++i) c += (got[i] == &items[j]);
    for (unsigned i = 0; i < ngot_thief; ++i) c += (stolen[i] == &items[j]);
#ifdef THIEF2
    for (unsigned i = 0; i < ngot_thief2; ++i) c += (stolen2[i] == &items[j]);
#endif
    vp_assert(c == 1, 20 + j);
  }
}
