// C14: seqlock::load returns exactly some stored value (all sizeof(T) bytes), never torn.
// T = NW 32-bit words (NW*4 bytes, alignment 4) or, with ALIGN8, NW 64-bit words.
#include <cstdint>
#include <cstring>
#include <xenium/seqlock.hpp>
#include "vp.h"
#ifndef NW
#define NW 3
#endif
#ifndef SLOTS
#define SLOTS 1
#endif
#ifdef ALIGN8
using word = uint64_t;
#else
using word = uint32_t;
#endif
struct Val { word w[NW]; };
static_assert(sizeof(Val) > sizeof(void*), "");
using SL = xenium::seqlock<Val, xenium::policy::slots<SLOTS>>;
static SL* sl;
static Val mk(word x) { Val v; for (int i = 0; i < NW; ++i) v.w[i] = x + (word)i * 0x01010101u; return v; }
static bool is(const Val& v, word x) { for (int i = 0; i < NW; ++i) if (v.w[i] != x + (word)i * 0x01010101u) return false; return true; }

extern "C" void vp_setup() {
  sl = new SL(mk(1));
}
#ifndef MT
// sequential: store / update / load round trips with symbolic values
extern "C" void vp_thread1() {
  word x = (word)vp_nondet(1), y = (word)vp_nondet(2);
  Val a = sl->load();
  vp_assert(is(a, 1), 1);
  sl->store(mk(x));
  Val b = sl->load();
  vp_assert(is(b, x), 2);
  sl->update([y](Val& v) { for (int i = 0; i < NW; ++i) v.w[i] += y; });
  Val c = sl->load();
  vp_assert(is(c, x + y), 3);
  sl->store(mk(y));
  Val d = sl->load();
  vp_assert(is(d, y), 4);
  vp_cover(1);
}
#else
// concurrent: writer stores 2 then (optionally) updates to 3; reader loads twice: each result is one of the written
// values, and the second is not older than the first
static int rank(const Val& v) { return is(v, 1) ? 1 : is(v, 2) ? 2 : is(v, 3) ? 3 : 0; }
extern "C" void vp_thread1() {   // writer
  sl->store(mk(2));
#ifdef WITH_UPDATE
  sl->update([](Val& v) { for (int i = 0; i < NW; ++i) v.w[i] += 1; });
#endif
  vp_cover(1);
}
extern "C" void vp_thread2() {   // reader
  Val a = sl->load();
  int ra = rank(a);
  vp_assert(ra != 0, 10);
  Val b = sl->load();
  int rb = rank(b);
  vp_assert(rb != 0, 11);
  vp_assert(rb >= ra, 12);
  vp_cover(2);
}
#ifdef READER2
extern "C" void vp_thread3() {   // second reader
  Val a = sl->load();
  vp_assert(rank(a) != 0, 13);
}
#endif
extern "C" void vp_final() {
  Val v = sl->load();
#ifdef WITH_UPDATE
  vp_assert(is(v, 3), 20);
#else
  vp_assert(is(v, 2), 20);
#endif
}
#endif
