// C11: vyukov_hash_map iterators.  All keys collide in bucket 0 (3 array slots + extension items).
// MODE 1 (sequential): full traversal with begin()/++; at a solver-chosen position the current element is removed with
//   erase(iterator).  Every element is yielded exactly once, erase removes exactly the current one and leaves the iterator
//   on a not yet visited element, afterwards every bucket lock is released (ordinary operations complete) and the content
//   is the initial one minus the erased key.
// MODE 2 (sequential): find(k) + erase(iterator) + reset for a solver-chosen key, then lookups of all keys.
// MODE 3 (2 threads): iterator thread: find(WK), erase(it), reset   ||   lock-free reader: try_get_value(RK), RK != WK present
//   throughout: the reader must find it with the right value (its version validation must detect the removal).
#include "common/recl.h"
#include <xenium/vyukov_hash_map.hpp>
#include "vp.h"
#ifndef NKEYS
#define NKEYS 5
#endif
#ifndef MODE
#define MODE 1
#endif
#ifndef RK
#define RK 4
#endif
#ifndef WK
#define WK 5
#endif
#ifndef HASHV
#define HASHV 0
#endif
struct KHash { std::size_t operator()(int) const { return HASHV; } };   // HASHV=127: last bucket, so a traversal ends right behind it
using M = xenium::vyukov_hash_map<int, int, xp::reclaimer<R>, xp::hash<KHash>>;
static M* m;
extern "C" void vp_setup() { m = new M(128); for (int k = 1; k <= NKEYS; ++k) m->emplace(k, k * 10); }

static void check_content(unsigned expect) {
  for (int k = 1; k <= NKEYS; ++k) {
    M::accessor a; bool r = m->try_get_value(k, a);
    vp_assert(r == (bool)((expect >> k) & 1), 30);
    if (r) vp_assert(*a == k * 10, 31);
  }
}

extern "C" void vp_thread1() {
#if MODE == 1
  unsigned pos = (unsigned)vp_range(1, 0, NKEYS);          // NKEYS = erase nothing
  unsigned seen = 0, dup = 0; int n = 0; int erased = 0;
  {
    auto it = m->begin();
    while (it != m->end() && n < NKEYS + 2) {
      auto kv = *it;
      int k = kv.first;
      vp_assert(k >= 1 && k <= NKEYS && kv.second == k * 10, 1);
      if (k >= 1 && k <= NKEYS) { dup |= seen & (1u << k); seen |= 1u << k; }
      if ((unsigned)n == pos) { erased = k; m->erase(it); } else ++it;
      ++n;
    }
    vp_assert(it == m->end(), 2);
  }
  vp_assert(dup == 0, 3);                                   // nothing twice
  vp_assert(seen == ((1u << (NKEYS + 1)) - 2), 4);          // everything once (the erased one was yielded before its removal)
  vp_assert(n == NKEYS, 5);
  if (pos < NKEYS) vp_assert(erased != 0, 6);
  unsigned expect = ((1u << (NKEYS + 1)) - 2) & ~(erased ? (1u << erased) : 0u);
  check_content(expect);
  // all locks released: updates of the bucket complete
  if (erased) { vp_assert(m->emplace(erased, erased * 10), 7); expect |= 1u << erased; }
  vp_assert(m->erase(1), 8); expect &= ~2u;
  check_content(expect);
#elif MODE == 2
#ifdef FKEY
  int k = FKEY;
#else
  int k = (int)vp_range(1, 1, NKEYS);
#endif
  {
    auto it = m->find(k);
    vp_assert(it != m->end(), 10);
    vp_assert((*it).first == k && (*it).second == k * 10, 11);
    m->erase(it);
    if (it != m->end()) { int nk = (*it).first; vp_assert(nk != k && nk >= 1 && nk <= NKEYS, 12); }
    it.reset();
  }
  unsigned expect = ((1u << (NKEYS + 1)) - 2) & ~(1u << k);
  check_content(expect);
  vp_assert(m->emplace(k, k * 10), 13);
  check_content(expect | (1u << k));
#elif MODE == 3
  {
    auto it = m->find(WK);
    vp_assert(it != m->end(), 20);
    m->erase(it);
    it.reset();
  }
#else
  // MODE 4: two erasures through one iterator while a writer wants to insert into the same bucket: the iterator holds the
  // bucket exclusively, so the insertion takes effect before or after, never in between (it would be unlinked again)
  {
    auto it = m->find(WK);
    vp_assert(it != m->end(), 20);
    m->erase(it);
    if (it != m->end()) m->erase(it);
    it.reset();
  }
#endif
  vp_cover(1);
}
#if MODE == 4
static bool wres;
extern "C" void vp_thread2() { wres = m->emplace(NKEYS + 1, (NKEYS + 1) * 10); vp_cover(2); }
extern "C" void vp_final() {
  // the iterator removed WK and the element it stood on afterwards (which may be the writer's key if the insertion took effect
  // before the iterator locked the bucket and the array slot was refilled with it): exactly two of the NKEYS+1 keys are gone,
  // nothing else is lost, values are intact
  vp_assert(wres, 40);
  M::accessor b; vp_assert(!m->try_get_value(WK, b), 43);
  int cnt = 0;
  for (int k = 1; k <= NKEYS + 1; ++k) { M::accessor c; if (m->try_get_value(k, c)) { vp_assert(*c == k * 10, 44); ++cnt; } }
  vp_assert(cnt == NKEYS - 1, 45);
}
#endif
#if MODE == 3
extern "C" void vp_thread2() {       // lock-free reader
  M::accessor a;
  bool r = m->try_get_value(RK, a);
  vp_assert(r, 21);                  // present throughout the call
  if (r) vp_assert(*a == RK * 10, 22);
  vp_cover(2);
}
extern "C" void vp_final() {
  check_content(((1u << (NKEYS + 1)) - 2) & ~(1u << WK));
}
#endif
