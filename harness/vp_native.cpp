// Native implementation of the vp_* API: used for replaying counterexamples and for validating the
// encoder (same harness, same inputs, observable stream compared with the symbolic run).
#include "vp.h"
#include <cstdio>
#include <cstdlib>
#include <cstring>
#include <map>
#include <string>
#include <thread>
static std::map<uint32_t, uint64_t> g_vals;
static bool g_loaded = false;
static int g_fail = 0;
static void load() {
  if (g_loaded) return; g_loaded = true;
  const char* f = getenv("VP_VALUES");   // "id=value,id=value"
  if (!f) return;
  std::string s(f); size_t p = 0;
  while (p < s.size()) {
    size_t e = s.find(',', p); if (e == std::string::npos) e = s.size();
    std::string kv = s.substr(p, e - p); size_t q = kv.find('=');
    if (q != std::string::npos) g_vals[(uint32_t)strtoul(kv.substr(0, q).c_str(), 0, 0)] = strtoull(kv.substr(q + 1).c_str(), 0, 0);
    p = e + 1;
  }
}
extern "C" {
uint64_t vp_nondet(uint32_t id) { load(); return g_vals.count(id) ? g_vals[id] : 0; }
uint64_t vp_range(uint32_t id, uint64_t lo, uint64_t hi) { load(); uint64_t v = g_vals.count(id) ? g_vals[id] : lo; if (v < lo || v > hi) { printf("VP_RANGE_VIOLATED %u\n", id); exit(3);} return v; }
void vp_assume(bool c) { if (!c) { printf("VP_ASSUME_FAILED\n"); fflush(stdout); exit(4); } }
void vp_assert(bool c, uint32_t id) { if (!c) { printf("VP_ASSERT_FAILED %u\n", id); fflush(stdout); g_fail = 1; } }
void vp_cover(uint32_t id) { printf("VP_COVER %u\n", id); }
void vp_observe(uint32_t slot, uint64_t v) { printf("VP_OBSERVE %u %llu\n", slot, (unsigned long long)v); }
void vp_op_begin(uint32_t) {}
void vp_op_end(uint32_t) {}
void vp_thread_exit(void) {}
bool vp_alive(const void*) { return true; }
uint64_t vp_heap_allocs(void) { return 0; }
void vp_nop(void) {}
void vp_setup(void) __attribute__((weak));
void vp_thread1(void) __attribute__((weak));
void vp_thread2(void) __attribute__((weak));
void vp_thread3(void) __attribute__((weak));
void vp_final(void) __attribute__((weak));
}
int main() {
  setvbuf(stdout, 0, _IONBF, 0);
  if (vp_setup) vp_setup();
  // each scenario thread runs as a real thread (sequentially), so that thread_local destructors run at its exit
  if (vp_thread1) { std::thread t(vp_thread1); t.join(); }
  if (vp_thread2) { std::thread t(vp_thread2); t.join(); }
  if (vp_thread3) { std::thread t(vp_thread3); t.join(); }
  if (vp_final) vp_final();
  printf("VP_DONE fail=%d\n", g_fail);
  return g_fail ? 1 : 0;
}
