// C09: iterators of the Harris-Michael set / hash map under concurrent updates.
// Thread 1 traverses (MODE 1) or does find(FK) + erase(iterator) (MODE 2); thread 2 runs a short update program
// (-DT2A / -DT2B, op = 10*kind + key, kind 1 insert, 2 erase).  Keys 1..5, -DPRE = bit mask of the initial content.
// Oracles: engine lifetime oracle on every access (reclaimed memory is never touched; use a reclaimer that really frees);
// yielded keys strictly increasing (no key twice, none of the programs re-inserts), every yielded key was in the container
// at some time, every key that is present throughout is yielded; erase(iterator) removes exactly its element and returns
// an iterator to a later element.
#define private public
#define protected public
#include "common/recl.h"
#include <xenium/harris_michael_list_based_set.hpp>
#include <xenium/harris_michael_hash_map.hpp>
#undef private
#undef protected
#include "vp.h"
#ifndef PRE
#define PRE 14      // keys 1,2,3
#endif
#ifndef MODE
#define MODE 1
#endif
#ifndef T2A
#define T2A 22
#endif
#ifndef T2B
#define T2B 0
#endif
#ifndef FK
#define FK 2
#endif
#ifdef USE_MAP
struct const_hash { std::size_t operator()(int) const { return 0; } };
using S = xenium::harris_michael_hash_map<int, int, xp::reclaimer<R>, xp::buckets<1>, xp::hash<const_hash>>;
static bool ins(S& s, int k) { return s.emplace(k, k * 10); }
#define KEYOF(it) ((*(it)).first)
#else
using S = xenium::harris_michael_list_based_set<int, xp::reclaimer<R>>;
static bool ins(S& s, int k) { return s.emplace(k); }
#define KEYOF(it) (*(it))
#endif
static S* s;
static int y[8]; static int ny; static bool t2r[2];
static int after = -1;      // key the iterator returned by erase(iterator) refers to (0 = end)
static bool found;
static constexpr unsigned bit(int k) { return 1u << k; }
static constexpr unsigned kind_mask(int op, int kind) { return (op / 10 == kind) ? bit(op % 10) : 0u; }
static constexpr unsigned INS = kind_mask(T2A, 1) | kind_mask(T2B, 1);
static constexpr unsigned ERA = kind_mask(T2A, 2) | kind_mask(T2B, 2);

extern "C" void vp_setup() {
  s = new S();
  for (int k = 1; k <= 5; ++k) if (PRE & (1 << k)) ins(*s, k);
}
extern "C" void vp_thread1() {
#if MODE == 1
  {
    int n = 0;
    for (auto it = s->begin(); it != s->end(); ++it) {
      if (n >= 7) break;
      y[n++] = KEYOF(it);
    }
    ny = n;
  }
  // checked here, while the results are this thread's registers/stack
  unsigned seen = 0;
  for (int i = 0; i < ny; ++i) {
    int k = y[i];
    vp_assert(k >= 1 && k <= 5 && (((PRE | INS) >> k) & 1), 1);          // was in the container at some time
    if (i > 0) vp_assert(y[i - 1] < k, 2);                                // strictly increasing: no key twice
    if (k >= 1 && k <= 5) seen |= bit(k);
  }
  vp_assert(((PRE & ~ERA) & ~seen) == 0, 3);                              // present throughout => yielded
#else
  {
    auto it = s->find(FK);
    found = it != s->end();
    if (found) {
      vp_assert(KEYOF(it) == FK, 4);
      auto nx = s->erase(std::move(it));
      after = (nx != s->end()) ? KEYOF(nx) : 0;
      vp_assert(after == 0 || (after > FK && (((PRE | INS) >> after) & 1)), 5);
      // a later element that stays in the container throughout: the returned iterator refers to it or to something in front of it
      constexpr unsigned stay = (PRE & ~ERA) & ~((2u << FK) - 1);
      if (stay != 0) { int nxt = 1; while (!((stay >> nxt) & 1)) ++nxt; vp_assert(after != 0 && after <= nxt, 6); }
    }
  }
#endif
  vp_cover(1);
}
static bool run_op(int op) {
  int kind = op / 10, key = op % 10;
  if (kind == 1) return ins(*s, key);
  if (kind == 2) return s->erase(key);
  return false;
}
extern "C" void vp_thread2() { if (T2A) t2r[0] = run_op(T2A); if (T2B) t2r[1] = run_op(T2B); vp_cover(2); }

extern "C" void vp_final() {
  unsigned content = 0; int last = 0, n = 0; bool sorted = true, marked = false;
#ifdef USE_MAP
  auto p = s->buckets[0].load(std::memory_order_relaxed);
#else
  auto p = s->head.load(std::memory_order_relaxed);
#endif
  marked = p.mark() != 0;
  while (p.get() != nullptr && n < 8) {
#ifdef USE_MAP
    int k = p->data.value.first;
#else
    int k = p->key;
#endif
    if (k <= last) sorted = false;
    last = k; if (k >= 1 && k <= 5) content |= bit(k);
    ++n;
    p = p->next.load(std::memory_order_relaxed);
    if (p.mark() != 0) marked = true;
  }
  vp_assert(sorted, 20); vp_assert(!marked, 21);
#if MODE == 1
  // the traversal does not modify the container: final content = PRE with thread 2's program applied
  unsigned m = PRE;
  if (T2A) { if (T2A / 10 == 1) { vp_assert(t2r[0] == !((m >> (T2A % 10)) & 1), 10); m |= bit(T2A % 10); } else { vp_assert(t2r[0] == (bool)((m >> (T2A % 10)) & 1), 10); m &= ~bit(T2A % 10); } }
  if (T2B) { if (T2B / 10 == 1) { vp_assert(t2r[1] == !((m >> (T2B % 10)) & 1), 11); m |= bit(T2B % 10); } else { vp_assert(t2r[1] == (bool)((m >> (T2B % 10)) & 1), 11); m &= ~bit(T2B % 10); } }
  vp_assert(content == m, 12);
#else
  // erase(iterator) removed exactly FK (if it was found); everything else follows thread 2's program
  unsigned m = PRE;
  if (T2A) { if (T2A / 10 == 1) m |= bit(T2A % 10); else m &= ~bit(T2A % 10); }
  if (T2B) { if (T2B / 10 == 1) m |= bit(T2B % 10); else m &= ~bit(T2B % 10); }
  if (found && !(INS & bit(FK))) m &= ~bit(FK);
  if (!(INS & bit(FK))) vp_assert(content == m, 13);
  else vp_assert((content & ~bit(FK)) == (m & ~bit(FK)), 14);
  if (!found) vp_assert((ERA & bit(FK)) != 0 || !((PRE >> FK) & 1), 15);       // find misses only a key that was (being) erased
#endif
}
