// C16 (sequential instance): vyukov_hash_map::try_get_value takes no lock and must return after a bounded number of
// steps - also when several non-trivial keys share a hash value and live in the bucket's extension list.
#include "common/recl.h"
#include <xenium/vyukov_hash_map.hpp>
#include "vp.h"
struct Key {
  int v;
  Key(int x = 0) : v(x) {}
  Key(const Key& o) : v(o.v) {}            // user provided copy -> not trivially copyable -> stored through a pointer
  Key& operator=(const Key& o) { v = o.v; return *this; }
  bool operator==(const Key& o) const { return v == o.v; }
};
struct KHash { std::size_t operator()(const Key&) const { return 0; } };
using M = xenium::vyukov_hash_map<Key, int, xp::reclaimer<R>, xp::hash<KHash>>;
#ifndef NKEYS
#define NKEYS 5
#endif
extern "C" void vp_thread1() {
  M* m = new M(128);
  for (int k = 1; k <= NKEYS; ++k) m->emplace(Key(k), k * 10);
  int k = (int)vp_range(1, 1, NKEYS + 1);
  M::accessor a;
  bool r = m->try_get_value(Key(k), a);
  vp_assert(r == (k <= NKEYS), 1);
  if (r) vp_assert(*a == k * 10, 2);
  vp_cover(1);
}
