// C16: lock-free operations finish in bounded solo steps from every state other threads' partial operations leave.
// Thread 1 (the disturber) performs operations and may be stopped for good at ANY memory access (its final switch
// point is free); thread 2 then has to complete its own operations within the unrolled loop iterations.
#include "common/queues.h"
#include "vp.h"
static Q* q;
#ifndef PREFILL
#define PREFILL 0
#endif
extern "C" void vp_setup() {
  q = new Q();
  for (int i = 0; i < PREFILL; ++i) q->push(11 + i);
}
extern "C" void vp_thread1() {      // disturber (may stop anywhere)
#ifdef DISTURB_POP
  int v; q->pop(v);
#endif
  q->push(1);
#ifdef DISTURB_PUSH2
  q->push(2);
#endif
}
extern "C" void vp_thread2() {      // observed thread
  int v = -1;
#ifdef OBS_PUSH
  q->push(6);
#endif
  bool ok = q->pop(v);
  (void)ok;
  vp_cover(2);
}
