// C16: progress of deque steal, seqlock load (slots>1), left_right read, guard acquire/reset while the other thread is
// stopped at an arbitrary point of its operation.
#include "common/recl.h"
#include <xenium/chase_work_stealing_deque.hpp>
#include <xenium/seqlock.hpp>
#include <xenium/left_right.hpp>
#include "vp.h"
#if WHAT == 1
using D = xenium::chase_work_stealing_deque<int, xp::capacity<2>>;
static D* d; static int items[4];
extern "C" void vp_setup() { d = new D(); d->try_push(&items[0]); d->try_push(&items[1]); }
extern "C" void vp_thread1() { d->try_push(&items[2]); int* r; d->try_pop(r); d->try_pop(r); }
extern "C" void vp_thread2() { int* r = nullptr; d->try_steal(r); d->try_steal(r); vp_cover(2); }
#elif WHAT == 2
struct V { uint64_t w[3]; };
using SL = xenium::seqlock<V, xp::slots<2>>;
static SL* sl;
extern "C" void vp_setup() { sl = new SL(V{{1, 1, 1}}); }
extern "C" void vp_thread1() { sl->store(V{{2, 2, 2}}); sl->store(V{{3, 3, 3}}); }
extern "C" void vp_thread2() { V v = sl->load(); vp_assert(v.w[0] == v.w[2], 1); vp_cover(2); }
#elif WHAT == 3
struct Pr { int a = 0, b = 0; };
static xenium::left_right<Pr>* lr;
extern "C" void vp_setup() { lr = new xenium::left_right<Pr>(); }
extern "C" void vp_thread1() { lr->update([](Pr& p) { ++p.a; ++p.b; }); }
extern "C" void vp_thread2() { int a = lr->read([](const Pr& p) { return p.a; }); (void)a; vp_cover(2); }
#elif WHAT == 4
struct Node : R::enable_concurrent_ptr<Node, 1> { int v; explicit Node(int x) : v(x) {} };
using CP = R::concurrent_ptr<Node, 1>; using GP = CP::guard_ptr; using MP = CP::marked_ptr;
static CP cell;
extern "C" void vp_setup() { cell.store(new Node(1)); }
extern "C" void vp_thread1() {
  Node* n = new Node(2); GP g; g.acquire(cell); MP e = g;
  if (cell.compare_exchange_strong(e, MP(n))) g.reclaim(); else { g.reset(); delete n; }
}
extern "C" void vp_thread2() { GP g; g.acquire(cell); if (g) vp_assert(g->v != 0, 1); g.reset(); vp_cover(2); }
#endif
