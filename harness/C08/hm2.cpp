// C08: Harris-Michael list based set / hash map: two threads run short fixed programs, every context switch is a solver
// variable.  Oracle: the observed results and the final content must be explained by SOME interleaving of the two programs
// on a sequential set (checked for all interleavings in vp_final), the final list must be strictly sorted, duplicate free
// and without logically deleted (marked) nodes.
//   -DT1A=<op> -DT1B=<op> -DT2A=<op> -DT2B=<op>   op = 10*kind + key, kind 1 insert, 2 erase, 3 contains, 4 get_or_emplace
//                                                  (map only), 0 = none;  -DPRE=<bit mask of keys 1..3 present initially>
#define private public
#define protected public
#include "common/recl.h"
#include <xenium/harris_michael_list_based_set.hpp>
#include <xenium/harris_michael_hash_map.hpp>
#undef private
#undef protected
#include "vp.h"
#ifndef PRE
#define PRE 0
#endif
#ifndef T1A
#define T1A 12
#endif
#ifndef T1B
#define T1B 0
#endif
#ifndef T2A
#define T2A 12
#endif
#ifndef T2B
#define T2B 0
#endif
#ifdef USE_MAP
#ifndef BUCKETS
#define BUCKETS 1
#endif
struct const_hash { std::size_t operator()(int) const { return 0; } };
using S = xenium::harris_michael_hash_map<int, int, xp::reclaimer<R>, xp::buckets<BUCKETS>, xp::hash<const_hash>>;
static bool ins(S& s, int k) { return s.emplace(k, k * 10); }
#else
using S = xenium::harris_michael_list_based_set<int, xp::reclaimer<R>>;
static bool ins(S& s, int k) { return s.emplace(k); }
#endif
static S* s;
static bool res[2][2];
static const int prog[2][2] = {{T1A, T1B}, {T2A, T2B}};

static bool run_op(int op) {
  int kind = op / 10, key = op % 10;
  switch (kind) {
    case 1: return ins(*s, key);
    case 2: return s->erase(key);
    case 3: return s->contains(key);
#ifdef USE_MAP
    case 4: { auto r = s->get_or_emplace(key, key * 10); return r.second; }
#endif
    default: return false;
  }
}
// sequential reference: result of op on the bit mask set m (updated in place)
static bool ref_op(int op, unsigned& m) {
  int kind = op / 10, key = op % 10; unsigned bit = 1u << key;
  bool had = (m & bit) != 0;
  switch (kind) {
    case 1: case 4: m |= bit; return !had;
    case 2: m &= ~bit; return had;
    case 3: return had;
    default: return false;
  }
}
extern "C" void vp_setup() {
  s = new S();
  for (int k = 1; k <= 3; ++k) if (PRE & (1 << k)) ins(*s, k);
}
extern "C" void vp_thread1() { if (T1A) res[0][0] = run_op(T1A); if (T1B) res[0][1] = run_op(T1B); vp_cover(1); }
extern "C" void vp_thread2() { if (T2A) res[1][0] = run_op(T2A); if (T2B) res[1][1] = run_op(T2B); vp_cover(2); }

extern "C" void vp_final() {
  // raw walk over the list (no guards needed at quiescence)
  unsigned content = 0; int last = 0, n = 0; bool sorted = true, marked = false;
#ifdef USE_MAP
  auto p = s->buckets[0].load(std::memory_order_relaxed);
#else
  auto p = s->head.load(std::memory_order_relaxed);
#endif
  marked = p.mark() != 0;
  while (p.get() != nullptr && n < 6) {
#ifdef USE_MAP
    int k = p->data.value.first;
#else
    int k = p->key;
#endif
    if (k <= last) sorted = false;
    last = k; if (k >= 1 && k <= 3) content |= 1u << k;
    ++n;
    p = p->next.load(std::memory_order_relaxed);
    if (p.mark() != 0) marked = true;
  }
  vp_assert(sorted, 20);
  vp_assert(!marked, 21);
  vp_assert(n <= 3, 22);
  // all interleavings of the two programs (program order kept): bit i of 'order' = next op comes from thread 2
  int n1 = (T1A ? 1 : 0) + (T1B ? 1 : 0), n2 = (T2A ? 1 : 0) + (T2B ? 1 : 0);
  bool explained = false;
  for (unsigned order = 0; order < (1u << (n1 + n2)); ++order) {
    int i1 = 0, i2 = 0; unsigned m = PRE; bool ok = true, valid = true;
    for (int step = 0; step < n1 + n2; ++step) {
      int t = (order >> step) & 1;
      if (t == 0) { if (i1 >= n1) { valid = false; break; } bool e = ref_op(prog[0][i1], m); ok = ok && (e == res[0][i1]); ++i1; }
      else { if (i2 >= n2) { valid = false; break; } bool e = ref_op(prog[1][i2], m); ok = ok && (e == res[1][i2]); ++i2; }
    }
    if (valid && ok && m == content) explained = true;
  }
  vp_assert(explained, 1);
}
