// C08 sequential: symbolic sequences of set/map operations (operation and key of every step are solver variables)
// against a reference set; also checks iteration order and erase(iterator) (C09 sequential part).
#include "common/recl.h"
#include <xenium/harris_michael_list_based_set.hpp>
#include <xenium/harris_michael_hash_map.hpp>
#include "vp.h"
#ifndef NOPS
#define NOPS 3
#endif
#ifdef USE_MAP
#ifndef BUCKETS
#define BUCKETS 1
#endif
struct const_hash { std::size_t operator()(int) const { return 0; } };
using S = xenium::harris_michael_hash_map<int, int, xp::reclaimer<R>, xp::buckets<BUCKETS>, xp::hash<const_hash>>;
static int key_of(S::iterator& it) { return (*it).first; }
#else
using S = xenium::harris_michael_list_based_set<int, xp::reclaimer<R>>;
static int key_of(S::iterator& it) { return *it; }
#endif
extern "C" void vp_thread1() {
  S* s = new S();
  bool in[4] = {false, false, false, false};       // reference: keys 1..3
  for (unsigned st = 0; st < NOPS; ++st) {
    unsigned op = (unsigned)vp_range(10 + st, 0, 4);
    int k = (int)vp_range(30 + st, 1, 3);
    switch (op) {
      case 0: {
#ifdef USE_MAP
        bool r = s->emplace(k, k * 10);
#else
        bool r = s->emplace(k);
#endif
        vp_assert(r == !in[k], 100); in[k] = true; vp_cover(1); break;
      }
      case 1: { bool r = s->erase(k); vp_assert(r == in[k], 101); in[k] = false; vp_cover(2); break; }
      case 2: { bool r = s->contains(k); vp_assert(r == in[k], 102); break; }
      case 3: {   // find + erase(iterator): removes exactly that element, returns iterator to the successor
        auto it = s->find(k);
        vp_assert((it != s->end()) == in[k], 103);
        if (it != s->end()) {
          vp_assert(key_of(it) == k, 104);
          auto nx = s->erase(it);
          in[k] = false;
          int succ = 0;
          for (int j = k + 1; j <= 3; ++j) if (in[j]) { succ = j; break; }
          if (succ == 0) vp_assert(nx == s->end(), 105); else { vp_assert(nx != s->end(), 106); if (nx != s->end()) vp_assert(key_of(nx) == succ, 107); }
          vp_cover(3);
        }
        break;
      }
      default: {  // emplace_or_get
#ifdef USE_MAP
        auto r = s->emplace_or_get(k, k * 10);
#else
        auto r = s->emplace_or_get(k);
#endif
        vp_assert(r.second == !in[k], 108);
        vp_assert(r.first != s->end(), 109);
        if (r.first != s->end()) vp_assert(key_of(r.first) == k, 110);
        in[k] = true;
        break;
      }
    }
    // full traversal yields exactly the reference content in increasing order
    int expect = 1;
    for (auto it = s->begin(); it != s->end(); ++it) {
      while (expect <= 3 && !in[expect]) ++expect;
      vp_assert(expect <= 3, 120);
      if (expect > 3) break;
      vp_assert(key_of(it) == expect, 121);
      ++expect;
    }
    while (expect <= 3 && !in[expect]) ++expect;
    vp_assert(expect == 4, 122);
  }
  delete s;
}
