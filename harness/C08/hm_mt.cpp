// C08/C09: Harris-Michael list based set / hash map under concurrent insert/erase/contains/iteration.
// Each thread runs a short fixed program (-DT1=..., -DT2=... select it), all context switches are solver variables.
// Oracle: results must be explainable by SOME sequential order of the operations that respects program order
// (the harness enumerates the candidate orders by hand for these tiny programs), and the final content must match.
#include "common/recl.h"
#include <xenium/harris_michael_list_based_set.hpp>
#include <xenium/harris_michael_hash_map.hpp>
#include "vp.h"
#ifdef USE_MAP
#ifndef BUCKETS
#define BUCKETS 1
#endif
struct const_hash { std::size_t operator()(int) const { return 0; } };
using S = xenium::harris_michael_hash_map<int, int, xp::reclaimer<R>, xp::buckets<BUCKETS>, xp::hash<const_hash>>;
static bool ins(S& s, int k) { return s.emplace(k, k * 10); }
#else
using S = xenium::harris_michael_list_based_set<int, xp::reclaimer<R>>;
static bool ins(S& s, int k) { return s.emplace(k); }
#endif
static S* s;
static bool r1[3], r2[3];
#ifndef PRE
#define PRE 0      // bit mask of keys 1..3 present initially
#endif
extern "C" void vp_setup() {
  s = new S();
  for (int k = 1; k <= 3; ++k) if (PRE & (1 << k)) ins(*s, k);
}
// programs: 1 = insert(2); 2 = erase(2); 3 = contains(2); 4 = insert(1) then erase(2); 5 = erase(1) then insert(2)... see below
#ifndef T1
#define T1 1
#endif
#ifndef T2
#define T2 1
#endif
static void prog(int p, bool* r) {
  switch (p) {
    case 1: r[0] = ins(*s, 2); break;
    case 2: r[0] = s->erase(2); break;
    case 3: r[0] = s->contains(2); break;
    case 4: r[0] = ins(*s, 1); r[1] = s->erase(2); break;
    case 5: r[0] = s->erase(1); r[1] = ins(*s, 2); break;
    case 6: r[0] = s->erase(2); r[1] = ins(*s, 2); break;
    case 7: r[0] = s->contains(2); r[1] = s->contains(2); break;
    case 8: r[0] = ins(*s, 3); break;
    case 9: r[0] = s->erase(3); break;
    default: break;
  }
}
extern "C" void vp_thread1() { prog(T1, r1); vp_cover(1); }
extern "C" void vp_thread2() { prog(T2, r2); vp_cover(2); }
extern "C" void vp_final() {
  bool has1 = s->contains(1), has2 = s->contains(2), has3 = s->contains(3);
  bool p1 = PRE & 2, p2 = PRE & 4, p3 = PRE & 8;
  (void)has1; (void)has3; (void)p1; (void)p3;
#if T1 == 1 && T2 == 1         // two racing inserts of the same key: exactly one succeeds iff absent
  vp_assert((r1[0] + r2[0]) == (p2 ? 0 : 1), 1); vp_assert(has2, 2);
#elif T1 == 2 && T2 == 2       // two racing erases: exactly one succeeds iff present
  vp_assert((r1[0] + r2[0]) == (p2 ? 1 : 0), 3); vp_assert(!has2, 4);
#elif T1 == 1 && T2 == 2       // insert(2) || erase(2)
  if (p2) { vp_assert(r2[0], 5); vp_assert(has2 == r1[0], 6); }        // erase succeeds; insert succeeds iff it came after
  else { vp_assert(r1[0], 7); vp_assert(has2 == !r2[0], 8); }
#elif T1 == 4 && T2 == 5       // neighbours: insert(1);erase(2) || erase(1);insert(2)
  // final content must be consistent with the results
  { int c2 = (p2 ? 1 : 0) - (r1[1] ? 1 : 0) + (r2[1] ? 1 : 0); vp_assert(c2 == (has2 ? 1 : 0), 9);
    int c1 = (p1 ? 1 : 0) + (r1[0] ? 1 : 0) - (r2[0] ? 1 : 0); vp_assert(c1 == (has1 ? 1 : 0), 10); }
#elif T1 == 6 && T2 == 3       // erase(2);insert(2) || contains(2)
  vp_assert(has2, 11); if (p2) vp_assert(r1[0] && r1[1], 12);
#elif T1 == 2 && T2 == 7       // erase(2) || contains;contains : once gone it stays gone
  if (p2) { vp_assert(r1[0], 13); vp_assert(!(r2[1] && !r2[0]), 14); } else vp_assert(!r2[0] && !r2[1], 15);
#elif T1 == 8 && T2 == 2       // insert(3) || erase(2) with 1,2 present: unrelated keys both succeed
  vp_assert(r1[0] == !p3, 16); vp_assert(r2[0] == (bool)p2, 17); vp_assert(has3 && !has2, 18); vp_assert(has1 == (bool)p1, 19);
#endif
  // the list is still sorted and duplicate free
  int last = 0, n = 0;
  for (auto it = s->begin(); it != s->end(); ++it) {
#ifdef USE_MAP
    int k = (*it).first;
#else
    int k = *it;
#endif
    vp_assert(k > last, 20); last = k; if (++n > 4) break;
  }
  vp_assert(n == (has1 ? 1 : 0) + (has2 ? 1 : 0) + (has3 ? 1 : 0), 21);
}
