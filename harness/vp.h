// Harness API shared by the symbolic engine (xsym) and the native replay/validation build.
// In the xsym build these are undefined externals that the engine models; in the native build
// (-DVP_NATIVE) vp_native.cpp supplies them (values come from a replay file / environment).
#pragma once
#include <cstdint>
#include <cstddef>
extern "C" {
uint64_t vp_nondet(uint32_t id);                         // arbitrary 64-bit value (one variable per id)
uint64_t vp_range(uint32_t id, uint64_t lo, uint64_t hi); // arbitrary value in [lo,hi]
void vp_assume(bool c);
void vp_assert(bool c, uint32_t id);                     // obligation: c holds whenever reached
void vp_cover(uint32_t id);                              // coverage goal (must be reachable)
void vp_observe(uint32_t slot, uint64_t v);              // record an observable value
void vp_op_begin(uint32_t op);
void vp_op_end(uint32_t op);
void vp_thread_exit(void);                               // run this thread's thread_local destructors now
bool vp_alive(const void* p);                            // oracle: p is the base of a live heap block
uint64_t vp_heap_allocs(void);                            // oracle: number of heap allocations so far
void vp_nop(void);
// scenario entry points (any subset): vp_setup, vp_thread1..vp_thread3, vp_final
}
