// C15: symbolic sequences of guard_ptr operations (acquire, acquire_if_equal, copy/move assignment, reset, swap,
// copy construction) on three guards and two marked concurrent_ptr cells, against a reference model of
// (pointer, mark) values.  Every operation, guard index, cell index, target node and mark is a solver variable.
#include "common/recl.h"
#include "vp.h"
#include <utility>
struct Node : R::enable_concurrent_ptr<Node, 2> {
  int id;
  explicit Node(int i) : id(i) {}
};
using CP = R::concurrent_ptr<Node, 2>;
using GP = CP::guard_ptr;
using MP = CP::marked_ptr;
#ifndef NOPS
#define NOPS 4
#endif
static CP cell[2];
static Node* nodes[3];

extern "C" void vp_thread1() {
  for (int j = 0; j < 3; ++j) nodes[j] = new Node(j);
  int cp[2]; unsigned cm[2];          // model of the cells: node index (or -1) and mark
  for (int c = 0; c < 2; ++c) {
    cp[c] = c; cm[c] = (unsigned)vp_range(1 + c, 0, 3);
    cell[c].store(MP(nodes[c], cm[c]));
  }
  GP g[3];
  int gp[3] = {-1, -1, -1}; unsigned gm[3] = {0, 0, 0};
  for (unsigned s = 0; s < NOPS; ++s) {
    unsigned op = (unsigned)vp_range(10 + s, 0, 7);
    unsigned a = (unsigned)vp_range(30 + s, 0, 2);
    unsigned b = (unsigned)vp_range(50 + s, 0, 2);
    unsigned c = b & 1;
    unsigned x = (unsigned)vp_range(70 + s, 0, 3);     // 3 = nullptr
    unsigned mk = (unsigned)vp_range(90 + s, 0, 3);
    Node* xp = x < 3 ? nodes[x] : nullptr;
    int xi = x < 3 ? (int)x : -1;
    switch (op) {
      case 0:
        g[a].acquire(cell[c]);
        gp[a] = cp[c]; gm[a] = cm[c];
        vp_cover(1);
        break;
      case 1: {
        bool r = g[a].acquire_if_equal(cell[c], MP(xp, mk));
        bool eq = (cp[c] == xi && cm[c] == mk);
        vp_assert(r == eq, 100);
        if (eq) { gp[a] = cp[c]; gm[a] = cm[c]; vp_cover(2); } else { gp[a] = -1; gm[a] = 0; }
        break;
      }
      case 2:
        g[a] = g[b];
        gp[a] = gp[b]; gm[a] = gm[b];
        break;
      case 3:
        g[a] = std::move(g[b]);
        if (a != b) { gp[a] = gp[b]; gm[a] = gm[b]; gp[b] = -1; gm[b] = 0; }
        break;
      case 4:
        g[a].reset();
        gp[a] = -1; gm[a] = 0;
        break;
      case 5: {
        g[a].swap(g[b]);
        int tp = gp[a]; unsigned tm = gm[a]; gp[a] = gp[b]; gm[a] = gm[b]; gp[b] = tp; gm[b] = tm;
        break;
      }
      case 6:
        cell[c].store(MP(xp, mk));
        cp[c] = xi; cm[c] = mk;
        break;
      default: {
        GP t(g[a]);
        vp_assert(t.get() == g[a].get() && t.mark() == g[a].mark(), 101);
        GP u(std::move(t));
        vp_assert(!t, 102);
        vp_assert(u.get() == g[a].get() && u.mark() == g[a].mark(), 103);
        break;
      }
    }
    for (int i = 0; i < 3; ++i) {
      Node* e = gp[i] < 0 ? nullptr : nodes[gp[i]];
      vp_assert(g[i].get() == e, 110 + i);
      vp_assert(g[i].mark() == gm[i], 120 + i);
      vp_assert(static_cast<bool>(g[i]) == (e != nullptr || gm[i] != 0), 130 + i);
      if (e != nullptr) vp_assert(g[i]->id == gp[i], 140 + i);
    }
    for (int k = 0; k < 2; ++k) {
      MP v = cell[k].load();
      vp_assert(v.get() == (cp[k] < 0 ? nullptr : nodes[cp[k]]) && v.mark() == cm[k], 150 + k);
    }
  }
  for (int i = 0; i < 3; ++i) g[i].reset();
}
