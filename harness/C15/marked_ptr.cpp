// C15 leaf kernels: marked_ptr<T, MarkBits, MaxUpper> round-trips every canonical aligned pointer with every mark.
#include <xenium/marked_ptr.hpp>
#include "vp.h"
struct alignas(65536) Big { char c[65536]; };   // alignment leaves 16 low bits free for lower mark bits
template <unsigned M, unsigned U>
static void check(uint64_t praw, uint64_t mark, unsigned id) {
  using MP = xenium::marked_ptr<Big, M, U>;
  constexpr unsigned lower = M < U ? 0 : M - U;
  constexpr unsigned upper = M - lower;
  // canonical user-space pointer: upper `upper` bits clear (at most 16), lower `lower` bits clear by alignment
  uint64_t p = praw & ((upper == 0 ? ~0ull : (~0ull >> upper))) & ~((1ull << lower) - 1);
  Big* ptr = reinterpret_cast<Big*>(p);
  MP a(ptr, mark);
  vp_assert(a.get() == ptr, id);
  vp_assert(a.mark() == (M == 0 ? 0 : (mark & ((1ull << M) - 1))), id + 1);
  MP b(ptr, mark);
  vp_assert(a == b, id + 2);
  MP c(ptr, mark + 1);
  if (M > 0) vp_assert(a != c, id + 3);
  vp_assert(static_cast<bool>(a) == (ptr != nullptr || a.mark() != 0), id + 4);
}
template <unsigned M>
static void all_splits(uint64_t p, uint64_t m) {
  check<M, 16>(p, m, 1000 + M * 30);
  check<M, 8>(p, m, 1000 + M * 30 + 10);
  if constexpr (M <= 16) check<M, 0>(p, m, 1000 + M * 30 + 20);   // all mark bits in the low bits: needs alignment 2^M
}
template <unsigned... Ms> static void run(uint64_t p, uint64_t m) { (all_splits<Ms>(p, m), ...); }
extern "C" void vp_thread1() {
  uint64_t p = vp_nondet(1), m = vp_nondet(2);
  run<1, 2, 3, 4, 5, 6, 7, 8, 9, 10, 11, 12, 13, 14, 15, 16, 17, 18, 19, 20, 21, 22, 23, 24, 25, 26, 27, 28, 29, 30, 31, 32>(p, m);
  {
    using MP0 = xenium::marked_ptr<Big, 0>;
    Big* ptr = reinterpret_cast<Big*>(p);
    MP0 a(ptr);
    vp_assert(a.get() == ptr && a.mark() == 0, 1);
  }
  vp_cover(1);
}
