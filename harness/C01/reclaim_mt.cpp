// C01: a reader protects the node published in a shared cell while a writer replaces it, retires the old
// node and then drives the scheme's reclamation (scans / epoch advances).  The reader dereferences the
// node through its guard: any free of the node before the guard is dropped is a use-after-free.
#include "common/recl.h"
#include "vp.h"
struct Node : R::enable_concurrent_ptr<Node, 1> {
  int v;
  explicit Node(int x) : v(x) {}
  ~Node() override { v = -1; }
};
using CP = R::concurrent_ptr<Node, 1>;
using GP = CP::guard_ptr;
using MP = CP::marked_ptr;
static CP cell;
#ifndef PUMP
#define PUMP 3
#endif
static void pump(int n) {          // enter and leave a critical region n times (drives scans / epochs)
  for (int i = 0; i < n; ++i) { GP g; g.acquire(cell); }
}
extern "C" void vp_setup() { cell.store(new Node(1)); }

static void role_reader() {
#ifdef USE_REGION
  R::region_guard rg;
#endif
  GP g;
#ifdef ACQ_IF_EQUAL
  MP e = cell.load();
  bool ok = g.acquire_if_equal(cell, e);
  if (!ok) vp_assert(!g, 3);
#else
  g.acquire(cell);
#endif
  if (g) {
    int x = g->v;
    vp_assert(x == 1 || x == 2, 1);
#ifdef COPY_GUARD
    GP g2(g);
    g.reset();
    x = g2->v;
    vp_assert(x == 1 || x == 2, 4);
#endif
#ifdef MOVE_GUARD
    GP g3(std::move(g));
    x = g3->v;
    vp_assert(x == 1 || x == 2, 5);
#endif
    vp_cover(1);
  }
}

static void role_writer() {
  Node* n = new Node(2);
  GP g;
  g.acquire(cell);
  MP e = g;
  if (cell.compare_exchange_strong(e, MP(n))) {
    g.reclaim();
    vp_cover(2);
  } else {
    g.reset();
    delete n;
  }
  pump(PUMP);
#ifdef SECOND_RETIRE
  Node* n3 = new Node(2);
  GP h; h.acquire(cell);
  MP e2 = h;
  if (cell.compare_exchange_strong(e2, MP(n3))) h.reclaim(); else { h.reset(); delete n3; }
  pump(PUMP);
#endif
}

// third role: retires a private node, which makes it scan while the others run
static void role_scanner() {
  Node* t = new Node(9);
  GP g{MP(t)};
  g.reclaim();
}
#if defined(ORDER_SRW)          // scanner, reader, writer: lets the scanner take its snapshot first within one round
extern "C" void vp_thread1() { role_scanner(); }
extern "C" void vp_thread2() { role_reader(); }
extern "C" void vp_thread3() { role_writer(); }
#else
extern "C" void vp_thread1() { role_reader(); }
extern "C" void vp_thread2() { role_writer(); }
#ifdef SCANNER
extern "C" void vp_thread3() { role_scanner(); }
#endif
#endif
