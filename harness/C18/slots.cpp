// C18: hazard pointer / hazard era slots.  Symbolic sequences of acquire / acquire_if_equal / copy / move / reset
// (+ era advance for hazard_eras) on NG guards with a pool of HPK slots.
// Oracle: an operation may throw only when all HPK slots are in use; after a throw the slot accounting is intact
// (every protecting guard owns a slot that publishes its object/era, guard counts match); no slot is leaked.
// Private state is read (never written, except the era clock) by re-declaring access in this TU only.
#include "common/std_stubs.h"
#define private public
#define protected public
#include <xenium/reclamation/hazard_pointer.hpp>
#include <xenium/reclamation/hazard_eras.hpp>
#undef private
#undef protected
#include "common/recl.h"
#include "vp.h"
#include <utility>
struct Node : R::enable_concurrent_ptr<Node, 0> {
  int id;
  explicit Node(int i) : id(i) {}
};
using CP = R::concurrent_ptr<Node, 0>;
using GP = CP::guard_ptr;
using MP = CP::marked_ptr;
#ifndef NOPS
#define NOPS 4
#endif
#ifndef NG
#define NG 3
#endif
static CP cell[2];
static Node* nodes[2];
#if RECL == 3 || RECL == 4
#define IS_HE 1
#endif

static void check_invariant(GP* g, int* held, unsigned id) {
#ifdef IS_HE
  // every protecting guard references a slot that publishes an era; per slot the guard count equals the number of
  // guards referencing it
  for (int i = 0; i < NG; ++i) {
    if (held[i] >= 0) {
      vp_assert(g[i].he != nullptr, id);
      if (g[i].he == nullptr) continue;
      vp_assert(!g[i].he->is_link(), id + 1);
      unsigned refs = 0;
      for (int j = 0; j < NG; ++j) refs += (held[j] >= 0 && g[j].he == g[i].he);
      vp_assert(g[i].he->guards() == refs, id + 2);
    } else {
      vp_assert(g[i].he == nullptr, id + 3);
    }
  }
#else
  for (int i = 0; i < NG; ++i) {
    if (held[i] >= 0) {
      vp_assert(g[i].hp != nullptr, id);
      if (g[i].hp == nullptr) continue;
      xr::detail::deletable_object* pub = nullptr;
      bool isobj = g[i].hp->try_get_object(pub);
      vp_assert(isobj && pub == static_cast<xr::detail::deletable_object*>(nodes[held[i]]), id + 1);   // published
      for (int j = 0; j < i; ++j) vp_assert(!(held[j] >= 0 && g[j].hp == g[i].hp), id + 2);   // slots are not shared
    }
  }
#endif
}

extern "C" void vp_thread1() {
  for (int j = 0; j < 2; ++j) { nodes[j] = new Node(j); cell[j].store(nodes[j]); }
  GP g[NG];
  int held[NG];                       // model: index of the node each guard protects, -1 = empty
  for (int i = 0; i < NG; ++i) held[i] = -1;
#ifdef PREFIX_FULL
  // concrete prefix that uses up all slots: g0 and g1 share one protection, g2 holds another one taken in a later era
  g[0].acquire(cell[0]); held[0] = 0;
  g[1] = g[0]; held[1] = 0;
#ifdef IS_HE
  R::era_clock.fetch_add(1, std::memory_order_release);
#endif
#if HPK >= 3 || defined(IS_HE)
  g[2].acquire(cell[1]); held[2] = 1;
#endif
#ifdef IS_HE
  R::era_clock.fetch_add(1, std::memory_order_release);
#endif
  check_invariant(g, held, 300);
#endif
  for (unsigned s = 0; s < NOPS; ++s) {
#ifdef FIXOPS
    // deterministic instance (growth of the dynamic pool): operations given by -DFIXOPS="{op,a,c},..." style table
    static const unsigned fix[][3] = FIXOPS;
    unsigned op = fix[s][0];
#else
    unsigned op = (unsigned)vp_range(10 + s, 0, 5);
#endif
#if defined(FIXOPS)
    unsigned a = fix[s][1];
    unsigned b = (s + 2) % NG;
#elif defined(SYM_INDEX)
    unsigned a = (unsigned)vp_range(30 + s, 0, NG - 1);
    unsigned b = (unsigned)vp_range(50 + s, 0, NG - 1);
#else
    unsigned a = (s * 2 + 1) % NG;    // fixed rotation keeps the guard array accesses concrete; the operation is symbolic
    unsigned b = (s + 2) % NG;
#endif
#ifdef FIXOPS
    unsigned c = fix[s][2];
#else
    unsigned c = (unsigned)vp_range(70 + s, 0, 1);
#endif
    unsigned live = 0;
    for (int i = 0; i < NG; ++i) live += held[i] >= 0;
    bool threw = false;
    switch (op) {
      case 0:                         // acquire
        try { g[a].acquire(cell[c]); held[a] = (int)c; vp_cover(1); } catch (...) { threw = true; }
        break;
      case 1:                         // acquire_if_equal (expected value matches)
        try { bool r = g[a].acquire_if_equal(cell[c], MP(nodes[c])); vp_assert(r, 100); held[a] = (int)c; } catch (...) { threw = true; }
        break;
      case 2:                         // copy assignment
        try { g[a] = g[b]; held[a] = held[b]; } catch (...) { threw = true; }
        break;
      case 3:                         // move assignment
        g[a] = std::move(g[b]);
        if (a != b) { held[a] = held[b]; held[b] = -1; }
        break;
      case 4:                         // reset
        g[a].reset();
        held[a] = -1;
        break;
      default:
#ifdef IS_HE
        R::era_clock.fetch_add(1, std::memory_order_release);   // a retirement elsewhere advanced the era
#endif
        break;
    }
    if (threw) {
#ifdef DYNAMIC
      vp_assert(false, 102);          // the dynamic strategy never reports exhaustion
#else
      vp_assert(live >= HPK, 101);    // exhaustion is the only reason to throw
#endif
      // the guard either keeps its previous protection or is empty - but the bookkeeping must stay consistent
      if (!g[a]) held[a] = -1;
      vp_cover(2);
    }
    for (int i = 0; i < NG; ++i) vp_assert(g[i].get() == (held[i] < 0 ? nullptr : nodes[held[i]]), 110 + i);
    check_invariant(g, held, 200);
  }
  // no slot leaked: after releasing everything HPK fresh guards can be acquired simultaneously
  for (int i = 0; i < NG; ++i) g[i].reset();
  {
    GP f[HPK];
    for (int i = 0; i < HPK; ++i) {
      bool ok = true;
      try { f[i].acquire(cell[i & 1]); } catch (...) { ok = false; }
      vp_assert(ok, 150);
#ifdef IS_HE
      R::era_clock.fetch_add(1, std::memory_order_release);
#endif
    }
    vp_cover(3);
  }
}
