// C17: thread generations.  Three generations use the reclaimer one after the other (thread 1, thread 2, then the main
// thread in vp_final), each performing a guarded access and a retirement and then exiting.  Per-thread bookkeeping must
// be reused: the number of heap allocations that are NOT nodes allocated by the harness must not grow with the number
// of generations (control blocks are recycled), and the census of retired nodes must be exact (C02 across reuse).
#include "common/recl.h"
#include "vp.h"
static int deleted[8];
static bool retired[8];
struct Node;
struct Del { void operator()(Node* n) const; };
struct Node : R::enable_concurrent_ptr<Node, 0, Del> { int id; explicit Node(int i) : id(i) {} };
void Del::operator()(Node* n) const { deleted[n->id]++; delete n; }
using CP = R::concurrent_ptr<Node, 0>; using GP = CP::guard_ptr; using MP = CP::marked_ptr;
static CP cell;
static unsigned long nodes_allocated;
static unsigned long bookkeeping_after[4];
#ifndef PUMP
#define PUMP 0
#endif
static void generation(int id, int slot) {
  // replace the published node by a fresh one, retire the old one, look at the cell through a guard
  Node* n = new Node(id); ++nodes_allocated;
  GP g; g.acquire(cell); MP e = g;
  int old = g ? g->id : 0;
  if (cell.compare_exchange_strong(e, MP(n))) { retired[old] = true; g.reclaim(); } else { g.reset(); delete n; }
  { GP h; h.acquire(cell); if (h) vp_assert(h->id >= 1 && h->id <= 4, 1); }
  for (int i = 0; i < PUMP; ++i) { GP p; p.acquire(cell); }
  bookkeeping_after[slot] = vp_heap_allocs() - nodes_allocated;
}
extern "C" void vp_setup() { cell.store(new Node(1)); ++nodes_allocated; }
extern "C" void vp_thread1() { generation(2, 1); }
extern "C" void vp_thread2() { generation(3, 2); }
extern "C" void vp_final() {
  generation(4, 3);
#ifndef OVERLAP
  // sequential generations: whatever the first generation needed is enough for all later ones
  vp_assert(bookkeeping_after[2] == bookkeeping_after[1], 10);
  vp_assert(bookkeeping_after[3] == bookkeeping_after[1], 11);
#else
  // two overlapping threads need at most twice the bookkeeping of one, the third generation adds nothing
  vp_assert(bookkeeping_after[3] <= 2 * bookkeeping_after[1] || bookkeeping_after[3] <= 2 * bookkeeping_after[2], 12);
#endif
  for (int i = 0; i < PUMP + 1; ++i) { GP p; p.acquire(cell); }
  { Node* t = new Node(5); GP g{MP(t)}; g.reclaim(); }
  for (int i = 1; i <= 4; ++i) vp_assert(deleted[i] == (retired[i] ? 1 : 0), 20);     // conservation across record reuse
  vp_assert(retired[1], 21);
  vp_cover(1);
}
