// Queue selection for the queue harnesses: -DQSEL=<n>.  Adapter Q with push(int)/pop(int&) over values 1..15.
#pragma once
#include "common/recl.h"
#include <xenium/michael_scott_queue.hpp>
#include <xenium/ramalhete_queue.hpp>
#include <xenium/nikolaev_queue.hpp>
#include <xenium/nikolaev_bounded_queue.hpp>
#include <xenium/vyukov_bounded_queue.hpp>
#include <xenium/kirsch_kfifo_queue.hpp>
#include <xenium/kirsch_bounded_kfifo_queue.hpp>
#ifndef QCAP
#define QCAP 2
#endif
#ifndef QK
#define QK 1
#endif
#ifndef EPN
#define EPN 2
#endif
#ifndef POPRETRIES
#define POPRETRIES 0
#endif
static int q_items[16];
static inline int* q_enc(int v) { return &q_items[v]; }
static inline int q_dec(int* p) { return (int)(p - q_items); }
#ifndef QSEL
#define QSEL 1
#endif
#if QSEL == 1      // vyukov_bounded_queue, strong operations
#define Q_BOUNDED 1
#define Q_NAME "vyukov_bounded_queue"
struct Q {
  xenium::vyukov_bounded_queue<int> q{QCAP};
  bool push(int v) { return q.try_push_strong(v); }
  bool pop(int& v) { return q.try_pop_strong(v); }
  bool push_weak(int v) { return q.try_push_weak(v); }
  bool pop_weak(int& v) { return q.try_pop_weak(v); }
};
#elif QSEL == 2    // nikolaev_bounded_queue
#define Q_BOUNDED 1
#define Q_NAME "nikolaev_bounded_queue"
struct Q {
  xenium::nikolaev_bounded_queue<int, xp::pop_retries<POPRETRIES>> q{QCAP};
  bool push(int v) { return q.try_push(v); }
  bool pop(int& v) { return q.try_pop(v); }
};
#elif QSEL == 3    // kirsch_bounded_kfifo_queue
#define Q_BOUNDED 1
#define Q_KFIFO 1
#define Q_NAME "kirsch_bounded_kfifo_queue"
struct Q {
  xenium::kirsch_bounded_kfifo_queue<int*> q{QK, QCAP};    // k, number of segments
  bool push(int v) { return q.try_push(q_enc(v)); }
  bool pop(int& v) { int* p = nullptr; if (!q.try_pop(p)) return false; v = q_dec(p); return true; }
};
#elif QSEL == 4    // michael_scott_queue
#define Q_NAME "michael_scott_queue"
struct Q {
  xenium::michael_scott_queue<int, xp::reclaimer<R>> q;
  bool push(int v) { q.push(v); return true; }
  bool pop(int& v) { return q.try_pop(v); }
};
#elif QSEL == 5    // ramalhete_queue
#define Q_NAME "ramalhete_queue"
struct Q {
  xenium::ramalhete_queue<int*, xp::reclaimer<R>, xp::entries_per_node<EPN>, xp::pop_retries<POPRETRIES>> q;
  bool push(int v) { q.push(q_enc(v)); return true; }
  bool pop(int& v) { int* p = nullptr; if (!q.try_pop(p)) return false; v = q_dec(p); return true; }
};
#elif QSEL == 6    // nikolaev_queue
#define Q_NAME "nikolaev_queue"
struct Q {
  xenium::nikolaev_queue<int, xp::reclaimer<R>, xp::entries_per_node<EPN>, xp::pop_retries<POPRETRIES>> q;
  bool push(int v) { q.push(v); return true; }
  bool pop(int& v) { return q.try_pop(v); }
};
#elif QSEL == 7    // kirsch_kfifo_queue
#define Q_KFIFO 1
#define Q_NAME "kirsch_kfifo_queue"
struct Q {
  xenium::kirsch_kfifo_queue<int*, xp::reclaimer<R>> q{QK};
  bool push(int v) { q.push(q_enc(v)); return true; }
  bool pop(int& v) { int* p = nullptr; if (!q.try_pop(p)) return false; v = q_dec(p); return true; }
};
#endif
