// Environment stubs for the std algorithms the reclaimers use on their scratch vectors.  Sorting symbolic
// data makes every later access index-symbolic; the library only needs the *results* that the std contracts
// guarantee, which the linear versions below compute on the unsorted range:
//   sort            -> no-op
//   unique          -> returns end (duplicates are harmless for membership / lower-bound queries)
//   binary_search   -> linear membership test
//   lower_bound     -> pointer to the smallest element >= value (what lower_bound returns on a sorted range), or end
// Listed in the evidence under assumptions.  Must be included before any xenium header.
#pragma once
#include <algorithm>
#include <vector>
#include <array>
#include <atomic>
#include <memory>
#include <functional>
#include <stdexcept>
#include <cstdint>
#include <cstddef>
#include <cassert>
#include <new>
#include <optional>
#include <utility>
#include <type_traits>
#include <mutex>
#include <thread>
namespace std {
template <class It> inline void vp_std_sort(It, It) {}
template <class It> inline It vp_std_unique(It, It e) { return e; }
template <class It, class T> inline bool vp_std_binary_search(It b, It e, const T& v) {
  bool found = false;
  for (; b != e; ++b) found |= (*b == v);
  return found;
}
template <class It, class T> inline It vp_std_lower_bound(It b, It e, const T& v) {
  It best = e;
  for (; b != e; ++b)
    if (!(*b < v) && (best == e || *b < *best)) best = b;
  return best;
}
}
// std::vector stub for the reclaimers' scratch vectors: fixed capacity, never reallocates (an overflow is flagged).
// The real vector's reallocation path is guarded by a symbolic size test at every push_back, which only adds
// infeasible paths here (the library reserves the needed capacity up front).
extern "C" void vp_assert(bool c, unsigned id);
namespace std {
template <class T, class A = void>
class vp_vector {
  T data_[24];
  T* end_ = data_;
public:
  using iterator = T*; using const_iterator = const T*; using value_type = T;
  vp_vector() = default;
  void reserve(std::size_t) {}
  void push_back(const T& v) { if (end_ == data_ + 24) { vp_assert(false, 9999); return; } *end_++ = v; }
  iterator begin() { return data_; }
  iterator end() { return end_; }
  const_iterator begin() const { return data_; }
  const_iterator end() const { return end_; }
  std::size_t size() const { return static_cast<std::size_t>(end_ - data_); }
  bool empty() const { return end_ == data_; }
  iterator erase(iterator f, iterator l) { if (f != l) { iterator d = f; for (iterator s = l; s != end_; ++s, ++d) *d = *s; end_ = d; } return f; }
  void clear() { end_ = data_; }
  T& operator[](std::size_t i) { return data_[i]; }
  const T& operator[](std::size_t i) const { return data_[i]; }
};
}
#define sort vp_std_sort
#define vector vp_vector
#define unique vp_std_unique
#define binary_search vp_std_binary_search
#define lower_bound vp_std_lower_bound
