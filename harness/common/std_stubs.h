// Environment stubs for the std algorithms the reclaimers use on their scratch vectors.  Sorting symbolic
// data makes every later access index-symbolic; the library only needs the *results* that the std contracts
// guarantee, which the linear versions below compute on the unsorted range:
//   sort            -> no-op
//   unique          -> returns end (duplicates are harmless for membership / lower-bound queries)
//   binary_search   -> linear membership test
//   lower_bound     -> pointer to the smallest element >= value (what lower_bound returns on a sorted range), or end
// Listed in the evidence under assumptions.  Must be included before any xenium header.
#pragma once
#include <algorithm>
#include <vector>
#include <array>
#include <atomic>
#include <memory>
#include <functional>
#include <stdexcept>
#include <cstdint>
#include <cstddef>
#include <cassert>
#include <new>
#include <optional>
#include <utility>
#include <type_traits>
#include <mutex>
#include <thread>
namespace std {
template <class It> inline void vp_std_sort(It, It) {}
template <class It> inline It vp_std_unique(It, It e) { return e; }
template <class It, class T> inline bool vp_std_binary_search(It b, It e, const T& v) {
  bool found = false;
  for (; b != e; ++b) found |= (*b == v);
  return found;
}
template <class It, class T> inline It vp_std_lower_bound(It b, It e, const T& v) {
  It best = e;
  for (; b != e; ++b)
    if (!(*b < v) && (best == e || *b < *best)) best = b;
  return best;
}
}
#define sort vp_std_sort
#define unique vp_std_unique
#define binary_search vp_std_binary_search
#define lower_bound vp_std_lower_bound
