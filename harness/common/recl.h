// Reclaimer selection for harnesses: -DRECL=<n>.  Tiny parameters so that scans / epoch advances happen
// inside a handful of operations.
#pragma once
#include "common/std_stubs.h"
#include <xenium/reclamation/hazard_pointer.hpp>
#include <xenium/reclamation/hazard_eras.hpp>
#include <xenium/reclamation/generic_epoch_based.hpp>
#include <xenium/reclamation/quiescent_state_based.hpp>
#include <xenium/reclamation/stamp_it.hpp>
#include <xenium/reclamation/lock_free_ref_count.hpp>
#include <xenium/policy.hpp>
#undef sort
#undef vector
#undef unique
#undef binary_search
#undef lower_bound
namespace xr = xenium::reclamation;
namespace xp = xenium::policy;
#ifndef HPK
#define HPK 2
#endif
// allocation strategies that scan on every retire (threshold 0)
struct hp_static0 : xr::hp_allocation::static_strategy<HPK> { static constexpr size_t retired_nodes_threshold() { return 0; } };
struct hp_dynamic0 : xr::hp_allocation::dynamic_strategy<HPK> { static constexpr size_t retired_nodes_threshold() { return 0; } };
struct he_static0 : xr::he_allocation::static_strategy<HPK> { static constexpr size_t retired_nodes_threshold() { return 0; } };
struct he_dynamic0 : xr::he_allocation::dynamic_strategy<HPK> { static constexpr size_t retired_nodes_threshold() { return 0; } };
#ifndef RECL
#define RECL 1
#endif
#if RECL == 1
using R = xr::hazard_pointer<>::with<xp::allocation_strategy<hp_static0>>;
#define RECL_NAME "hazard_pointer/static"
#elif RECL == 2
using R = xr::hazard_pointer<>::with<xp::allocation_strategy<hp_dynamic0>>;
#define RECL_NAME "hazard_pointer/dynamic"
#elif RECL == 3
using R = xr::hazard_eras<>::with<xp::allocation_strategy<he_static0>>;
#define RECL_NAME "hazard_eras/static"
#elif RECL == 4
using R = xr::hazard_eras<>::with<xp::allocation_strategy<he_dynamic0>>;
#define RECL_NAME "hazard_eras/dynamic"
#elif RECL == 5
using R = xr::generic_epoch_based<>::with<xp::scan_frequency<0>, xp::scan<xr::scan::all_threads>, xp::abandon<xr::abandon::never>, xp::region_extension<xr::region_extension::none>>;
#define RECL_NAME "epoch_based(scan 0)"
#define RECL_EPOCH 1
#elif RECL == 6
using R = xr::generic_epoch_based<>::with<xp::scan_frequency<0>, xp::scan<xr::scan::all_threads>, xp::abandon<xr::abandon::never>, xp::region_extension<xr::region_extension::eager>>;
#define RECL_NAME "new_epoch_based(scan 0, eager regions)"
#define RECL_EPOCH 1
#elif RECL == 7
using R = xr::generic_epoch_based<>::with<xp::scan_frequency<0>, xp::scan<xr::scan::one_thread>, xp::abandon<xr::abandon::always>, xp::region_extension<xr::region_extension::none>>;
#define RECL_NAME "debra(scan 0, one_thread, abandon always)"
#define RECL_EPOCH 1
#elif RECL == 8
using R = xr::quiescent_state_based;
#define RECL_NAME "quiescent_state_based"
#define RECL_EPOCH 1
#elif RECL == 9
using R = xr::stamp_it;
#define RECL_NAME "stamp_it"
#define RECL_EPOCH 1
#elif RECL == 10
using R = xr::lock_free_ref_count<>;
#define RECL_NAME "lock_free_ref_count"
#define RECL_LFRC 1
#elif RECL == 11
using R = xr::lock_free_ref_count<>::with<xp::thread_local_free_list_size<1>>;
#define RECL_NAME "lock_free_ref_count/tl-free-list"
#define RECL_LFRC 1
#elif RECL == 12
using R = xr::generic_epoch_based<>::with<xp::scan_frequency<0>, xp::scan<xr::scan::n_threads<2>>, xp::abandon<xr::abandon::when_exceeds_threshold<1>>, xp::region_extension<xr::region_extension::lazy>>;
#define RECL_NAME "generic_epoch_based(n_threads<2>, abandon>=1, lazy regions)"
#define RECL_EPOCH 1
#endif
