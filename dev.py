#!/usr/bin/env python3
"""developer driver: python3 dev.py harness.cpp [-Dx=y ...] [--unwind N]"""
import sys, time, os
sys.path.insert(0, os.path.dirname(os.path.abspath(__file__)))
from xsym import ir, run, term
from xsym.machine import Machine
src = sys.argv[1]; defs = [a[2:] for a in sys.argv[2:] if a.startswith('-D')]
U = 4
for a in sys.argv[2:]:
    if a.startswith('--unwind='): U = int(a.split('=')[1])
t0 = time.time()
txt, path, ct = run.compile_ir(os.path.abspath(src), defs)
mod = ir.Module(txt)
print('compiled %.2fs, parsed %.2fs, %d funcs' % (ct, time.time() - t0 - ct, len(mod.funcs)))
m = Machine(mod, nthreads=1, unwind=U, verbose=True)
from xsym import z3b
m.pruner = z3b.Pruner() if "--prune" in sys.argv else None
if m.pruner: m.prune_iter = True; m.do_restrict = True
for a in sys.argv[2:]:
    if a.startswith('--symcap='): m.sym_loop_cap = int(a.split('=')[1])
    if a.startswith('--maxrec='): m.max_recursion = int(a.split('=')[1])
    if a.startswith('--fix='):
        for kv in a[6:].split(','): k, v = kv.split('='); m.fixed[int(k)] = int(v)
t0 = time.time()
m.run_ctors()
if 'vp_setup' in mod.funcs: m.run_entry('vp_setup')
m.cur = m.threads[1]
m.run_entry('vp_thread1')
m.thread_exit()
m.cur = m.threads[0]
if 'vp_final' in mod.funcs: m.run_entry('vp_final')
if m.pruner: print("pruner", m.pruner.calls, m.pruner.pruned, "%.2fs" % m.pruner.time)
print('executed %.2fs' % (time.time() - t0), dict(m.stats), 'terms', term.nterms(), 'obligations', len(m.obligations), 'unwound', len(m.unwound))
for g,w in m.unwound: print('  unwound', w, g is True)
res = run.decide(m, os.path.basename(src), timeout=120, log=print)
print('violations', [(v['kind'], v['where'], {k: x for k, x in v['model'].items() if k.startswith('nd_')}) for v in res.violations])
print('inconclusive', [o.to_json() for o in res.inconclusive]); print('cover', res.cover, 'unwound_complete', res.unwound_complete)
