#!/usr/bin/env python3
"""developer driver for multi-threaded scenarios: devmt.py harness.cpp T K [-D..] [--unwind=N]"""
import sys, time, os
sys.path.insert(0, os.path.dirname(os.path.abspath(__file__)))
from xsym import scenario as S, run, term
src = sys.argv[1]; T = int(sys.argv[2]); K = int(sys.argv[3])
defs = [a[2:] for a in sys.argv[4:] if a.startswith('-D')]
U = 4
for a in sys.argv[4:]:
    if a.startswith('--unwind='): U = int(a.split('=')[1])
um = {}
for a in sys.argv[4:]:
    if a.startswith('--umap='):
        for kv in a[7:].split(','): k, v = kv.split('='); um['*' + k + '*'] = int(v)
sc = S.Scenario('dev', os.path.abspath(src), defs, threads=T, K=K, unwind=U, race='--race' in sys.argv, unwind_map=um, allow_unwound='--allow-unwound' in sys.argv)
res = S.run_scenario(sc, timeout=600, log=print)
print('error', res.error)
print('violations', [(v['kind'], v['where'], {k: x for k, x in v['model'].items() if k.startswith(('nd_', 'cs_'))}) for v in res.violations])
print('inconclusive', [o.to_json() for o in res.inconclusive]); print('cover', res.cover, 'unwound_complete', res.unwound_complete)
print('stats', res.stats)
