#!/usr/bin/env python3
"""Front end of the xenium property checks.

  check.py <PROPERTY> [--tier quick|thorough] [--only <scenario>] [--jobs N]
  check.py replay <replay.json>

Exit 0: every obligation of every scenario was discharged (unsat) on the current /repo tree, all coverage
goals reachable.  Exit 1 + 'VIOLATION property=<id> replay=<path>': a solver model violating the property
was found and reproduced.  Exit 2: machinery fault / inconclusive (never reported as a violation).
"""
import sys, os, json, time, importlib, fnmatch, multiprocessing, traceback, re

HERE = os.path.dirname(os.path.abspath(__file__))
sys.path.insert(0, HERE)
from xsym import scenario as S, run, term


def load_known():
    known = []
    p = os.path.join(HERE, 'known_findings.txt')
    if os.path.exists(p):
        for ln in open(p):
            ln = ln.strip()
            if not ln.startswith('known:'): continue
            d = dict(re.findall(r'(\w+)=("[^"]*"|\S+)', ln))
            known.append({k: v.strip('"') for k, v in d.items()} | {'line': ln})
    return known


def match_known(known, prop, scname, v):
    site = '%s %s' % (v['kind'], v['where'])
    for k in known:
        if k.get('property') != prop: continue
        if not fnmatch.fnmatch(scname, k.get('scenario', '*')): continue
        if k.get('site', '') in site:
            return k
    return None


def _worker(args):
    prop, scname, tier = args
    mod = importlib.import_module('props.' + prop)
    sc = [s for s in mod.scenarios(tier) if s.name == scname][0]
    lines = []
    t0 = time.time()
    try:
        res = S.run_scenario(sc, timeout=getattr(mod, 'TIMEOUT', {}).get(tier, 300), log=lines.append)
    except Exception as e:
        res = run.ScenarioResult(sc.name); res.error = 'engine crash: ' + traceback.format_exc()[-1500:]
        res.bounds = sc.bounds(); res.wall = time.time() - t0
    out = {'name': sc.name, 'error': res.error, 'violations': [], 'inconclusive': [o.to_json() for o in res.inconclusive],
           'outcomes': [o.to_json() for o in res.outcomes], 'cover': {str(k): v for k, v in res.cover.items()},
           'unwound_complete': res.unwound_complete, 'stats': res.stats, 'funcs': res.funcs, 'bounds': res.bounds,
           'solver_time': res.solver_time, 'exec_time': res.exec_time, 'compile_time': res.compile_time,
           'wall': getattr(res, 'wall', time.time() - t0), 'log': lines, 'note': sc.note, 'rss_mb': getattr(res, 'rss_mb', 0),
           'mt': sc.mt}
    for v in res.violations:
        vals = {int(k[3:]): x for k, x in v['model'].items() if k.startswith('nd_') and k[3:].isdigit()}
        rec = {'kind': v['kind'], 'where': v['where'], 'tag': v.get('tag'), 'inputs': vals,
               'schedule': {k: x for k, x in v['model'].items() if k.startswith(('cs_', 'stop_', 'reuse_', 'rdtsc_'))}}
        # replay
        try:
            if sc.mt:
                from xsym import mt
                rec['replay'] = mt.replay(sc, v['model'], v)
            else:
                rec['replay'] = S.native_replay(sc, vals)
        except Exception as e:
            rec['replay'] = {'reproduced': False, 'how': 'replay machinery failed: %s' % e, 'output': traceback.format_exc()[-800:]}
        out['violations'].append(rec)
    return out


def main():
    if len(sys.argv) >= 3 and sys.argv[1] == 'replay':
        return replay_file(sys.argv[2])
    prop = sys.argv[1]
    tier = os.environ.get('VERIF_TIER', 'quick'); only = None; jobs = int(os.environ.get('VERIF_JOBS', '5'))
    a = sys.argv[2:]
    while a:
        x = a.pop(0)
        if x == '--tier': tier = a.pop(0)
        elif x == '--only': only = a.pop(0)
        elif x == '--jobs': jobs = int(a.pop(0))
    seed = int(os.environ.get('VERIF_SEED', '0') or 0)
    t0 = time.time()
    mod = importlib.import_module('props.' + prop)
    scs = mod.scenarios(tier)
    if only: scs = [s for s in scs if fnmatch.fnmatch(s.name, only)]
    if seed:
        import random
        random.Random(seed).shuffle(scs)     # order only; nothing in the verdict is random
    print('== %s tier=%s: %d scenarios, %d parallel jobs' % (prop, tier, len(scs), jobs), flush=True)
    known = load_known()
    results = []
    with multiprocessing.Pool(min(jobs, max(1, len(scs))), maxtasksperchild=1) as pool:
        for out in pool.imap_unordered(_worker, [(prop, s.name, tier) for s in scs]):
            results.append(out)
            st = 'ERROR ' + out['error'][:300] if out['error'] else ('VIOLATED' if out['violations'] else ('INCONCLUSIVE' if out['inconclusive'] else 'ok'))
            print('-- %-40s %-12s wall %.1fs solver %.1fs  queries %d' % (out['name'], st, out['wall'], out['solver_time'], len(out['outcomes'])), flush=True)
            for l in out['log']: print(l)
    results.sort(key=lambda r: r['name'])
    # verdict
    rc = 0; nviol = 0; lines = []
    os.makedirs(os.path.join(HERE, 'replays'), exist_ok=True)
    for out in results:
        for n, v in enumerate(out['violations']):
            rp = os.path.join(HERE, 'replays', '%s-%s-%d.json' % (prop, out['name'], n))
            json.dump({'property': prop, 'scenario': out['name'], 'tier': tier, 'violation': v}, open(rp, 'w'), indent=1, default=str)
            if not v['replay'].get('reproduced'):
                lines.append('ENGINE-FAULT: property=%s scenario=%s solver model did not replay (%s): %s %s' % (prop, out['name'], v['replay'].get('how'), v['kind'], v['where']))
                rc = max(rc, 2); continue
            k = match_known(known, prop, out['name'], v)
            if k:
                lines.append('KNOWN-FINDING: property=%s %s [scenario %s: %s; replay: %s]' % (prop, k.get('what', k['line']), out['name'], v['where'], v['replay']['how']))
            else:
                nviol += 1
                lines.append('VIOLATION property=%s replay=%s  (%s: %s %s; inputs %s; %s)' % (prop, rp, out['name'], v['kind'], v['where'], v['inputs'], v['replay']['how']))
                rc = max(rc, 1)
        if out['error']:
            lines.append('INCONCLUSIVE: scenario %s: %s' % (out['name'], out['error'][:400])); rc = max(rc, 2) if rc != 1 else rc
        for o in out['inconclusive']:
            lines.append('INCONCLUSIVE: scenario %s: %s -> %s %s' % (out['name'], o['obligation'], o['verdict'], (o.get('detail') or '')[:200]))
            if rc != 1: rc = max(rc, 2)
    if nviol > 0: rc = 1          # a replayed violation dominates inconclusive scenarios
    for l in lines: print(l)
    write_evidence(prop, tier, seed, results, time.time() - t0, nviol, mod)
    print('== %s: %s in %.1fs' % (prop, {0: 'HELD on everything explored', 1: 'VIOLATED', 2: 'INCONCLUSIVE / machinery fault'}[rc], time.time() - t0))
    return rc


def write_evidence(prop, tier, seed, results, wall, nviol, mod):
    outcomes = [dict(o, scenario=r['name']) for r in results for o in r['outcomes']]
    solved = [o for o in outcomes if o['solver'] not in (None, 'fold')]
    nobl = sum(r['stats'].get('obligations', 0) for r in results if r['stats'])
    funcs = {}
    for r in results:
        for f, c in (r['funcs'] or {}).items(): funcs[f] = funcs.get(f, 0) + c
    samples = []
    for r in results:
        for o in r['outcomes'][:3]:
            samples.append({'scenario': r['name'], 'bounds': r['bounds'], **o})
    ev = {
        'property_id': prop, 'tier': tier, 'seed': seed, 'level': 'model_checking',
        'coverage': {
            'evaluations': len(outcomes),
            'distinct_nontrivial': len({(o['scenario'], o['obligation']) for o in solved}),
            'rule': 'one evaluation = one SMT query (a disjunction of safety obligations grouped by assumption prefix, a coverage/vacuity goal, '
                    'or an unwinding assertion) over the guarded-SSA encoding of the harness IR; non-trivial = decided by an SMT solver '
                    '(not folded to a constant by the term simplifier); distinct = different (scenario, obligation group)',
            'samples': samples[:12],
            'obligations': nobl,
            'queries_unsat': sum(1 for o in outcomes if o['verdict'] == 'unsat'),
            'queries_sat': sum(1 for o in outcomes if o['verdict'] == 'sat'),
            'queries_inconclusive': sum(1 for o in outcomes if o['verdict'] not in ('sat', 'unsat')),
            'scenarios': [{'name': r['name'], 'bounds': r['bounds'], 'note': r['note'], 'error': r['error'],
                           'unwinding_assertions_hold': r['unwound_complete'], 'cover': r['cover'], 'stats': r['stats'],
                           'solver_s': round(r['solver_time'], 2), 'exec_s': round(r['exec_time'], 2), 'rss_mb': r['rss_mb'],
                           'violations': [{'kind': v['kind'], 'where': v['where'], 'inputs': v['inputs'], 'replay': v['replay'].get('how')} for v in r['violations']]}
                          for r in results],
            'functions_encoded': sorted(funcs)[:400],
            'functions_encoded_count': len(funcs),
            'solver_time_s': round(sum(r['solver_time'] for r in results), 2),
            'exhaustive': False,
            'explanation': getattr(mod, 'EXPLANATION', ''),
        },
        'assumptions': getattr(mod, 'ASSUMPTIONS', []) + [
            'clang-14 -O1 IR of the harness TU is the code under analysis (regenerated from /repo on this run)',
            'sequentially consistent interleavings only unless the scenario says otherwise; context switches at every memory access',
            'models of externals: operator new/delete (fresh non-reused addresses unless reuse mode), __cxa_* runtime, pthread_mutex as a blocking flag, rdtsc = fresh symbolic value'],
        'wall_s': round(wall, 2), 'violations': nviol,
    }
    evdir = os.environ.get('VERIF_EVIDENCE_DIR') or os.path.join(HERE, 'evidence')     # (seed runs write elsewhere)
    os.makedirs(evdir, exist_ok=True)
    json.dump(ev, open(os.path.join(evdir, prop + '.json'), 'w'), indent=1, default=str)


def replay_file(path):
    d = json.load(open(path))
    prop = d['property']; mod = importlib.import_module('props.' + prop)
    sc = [s for s in mod.scenarios(d.get('tier', 'quick')) + mod.scenarios('thorough') if s.name == d['scenario']][0]
    v = d['violation']
    if sc.mt:
        from xsym import mt
        r = mt.replay(sc, dict(v.get('schedule', {}), **{'nd_%s' % k: x for k, x in v['inputs'].items()}), v)
    else:
        r = S.native_replay(sc, {int(k): x for k, x in v['inputs'].items()})
    print(json.dumps(r, indent=1))
    print('REPRODUCED' if r.get('reproduced') else 'NOT REPRODUCED')
    return 0 if r.get('reproduced') else 1


if __name__ == '__main__':
    sys.exit(main())
