"""Threads by lazy sequentialisation with symbolic context-switch windows (DESIGN.md 2.4).

K rounds x T threads.  In round r thread t executes exactly those visible operations (memory accesses,
allocation, harness calls) whose position lies in [c[t][r-1], c[t][r]); the c[t][r] are solver variables.
Every pass re-executes the thread function from the top; a visible operation takes effect only inside its
window, otherwise its previous result is carried over.  Positions are ranks of the operations' key paths
(a linear extension of the unrolled control-flow DAG), fixed after execution via term.VAR_DEFS.
"""
import time
from . import term
from .term import *

PW = 16   # bit width of positions / switch points


class MissingKey(Exception):
    pass


class Sched:
    def __init__(self, m, T, K, stop=(), posmap=None):
        self.m = m; self.T = T; self.K = K; self.stop = set(stop); self.posmap = posmap
        self.pos = {}     # key -> var
        self.keys = {t: [] for t in range(1, T + 1)}
        fx = getattr(m, 'fixed_sched', None) or {}
        self.c = {t: [0] + [fx.get('cs_%d_%d' % (t, r), var('cs_%d_%d' % (t, r), PW)) for r in range(1, K + 1)] for t in range(1, T + 1)}
        self.n = {t: var('n_%d' % t, PW) for t in range(1, T + 1)}
        self.fixed_c = None
        self.missing = 0
        self._sorted = {}

    def posvar(self, t, key):
        v = self.pos.get(key)
        if v is None:
            if self.posmap is not None:
                v = self.posmap.get(key)
                if v is None:
                    self.missing += 1
                    if getattr(self.m, 'allow_missing', False):
                        # concrete replay met an operation the symbolic run never ranked (e.g. a loop spinning beyond the
                        # unrolled iterations): give it the position of its successor in key order
                        import bisect
                        sk = self._sorted.get(t)
                        if sk is None:
                            sk = self._sorted[t] = sorted(k for k in self.posmap if isinstance(k, tuple) and k and k[0] != 'n' and self._tid_of(k) == t)
                        i = bisect.bisect(sk, key)
                        v = self.posmap[sk[i]] if i < len(sk) else self.posmap[('n', t)]
                    else:
                        # operation not seen by the ranking run: keep going with a placeholder, the caller re-ranks and re-runs
                        v = var('pos_%d_x%d' % (t, self.missing), PW)
                self.pos[key] = v
            else:
                v = self.pos[key] = var('pos_%d_%d' % (t, len(self.keys[t])), PW)
            self.keys[t].append(key)
        return v

    @staticmethod
    def _tid_of(k):
        h = k[0]
        if isinstance(h, tuple) and h and h[0] == 'e': return h[2]
        if isinstance(h, tuple) and h and h[0] == 'x': return h[1]
        return None

    def window(self, t, r):
        lo = self.c[t][r - 1]; hi = self.c[t][r]

        def win(key):
            p = self.posvar(t, key)
            return And(Cmp('ule', lo, p, PW), Cmp('ult', p, hi, PW))
        if not isinstance(lo, Term) and not isinstance(hi, Term) and lo >= hi:
            return None     # empty window with a concrete schedule: nothing to do in this pass
        return win

    def before(self, t, r):
        lo = self.c[t][r - 1]

        def bf(key):
            return Cmp('ult', self.posvar(t, key), lo, PW)
        return bf

    def upto(self, t, r):
        hi = self.c[t][r]

        def up(key):
            return Cmp('ult', self.posvar(t, key), hi, PW)
        return up

    def finish(self):
        """number the positions, constrain the switch points"""
        m = self.m
        self.ranks = {}
        for t in range(1, self.T + 1):
            ks = sorted(self.keys[t])
            for i, k in enumerate(ks):
                self.ranks[k] = i + 1
            if self.posmap is None:
                for i, k in enumerate(ks):
                    term.VAR_DEFS[self.pos[k].args[0]] = i + 1
                n = len(ks) + 1
            else:
                n = self.posmap[('n', t)]
            self.ranks[('n', t)] = n
            term.VAR_DEFS['n_%d' % t] = n
            c = self.c[t]
            for r in range(1, self.K + 1):
                m.gassumptions.append(Cmp('ule', c[r - 1], c[r], PW))
            m.gassumptions.append(Cmp('ule', c[self.K], n, PW))
            if t not in self.stop:
                m.gassumptions.append(Cmp('eq', c[self.K], n, PW))


def discover(m, sc):
    """first ranking run: every thread runs to completion one after the other (all operations inside the window), which
    is a plain concrete execution for concrete harness programs; it only collects the key paths of the visible
    operations on that schedule.  Operations met only under other schedules are added by the re-ranking iterations."""
    keys = {t: set() for t in range(1, sc.threads + 1)}
    pk = m.path_kill; m.path_kill = False
    for t in range(1, sc.threads + 1):
        m.cur = m.threads[t]; m.cur.reset_pass(); m.pass_no = t
        ks = keys[t]

        def win(key, ks=ks):
            ks.add(key); return True
        m.win = win; m.before = lambda key: False; m.upto = lambda key: True; m.pass_written = set()
        m.run_entry('vp_thread%d' % t)
        m.thread_exit()
    m.win = None; m.before = None; m.upto = None; m.path_kill = pk
    m.cur = m.threads[0]
    return keys


def run_threads(m, sc, log=None):
    T = sc.threads; K = sc.K
    sch = Sched(m, T, K, sc.stop, getattr(m, 'posmap', None))
    m.sched = sch
    if m.pruner is not None:
        # schedule shape, known up front: switch points are ordered
        for t in range(1, T + 1):
            for r in range(1, K + 1):
                c = Cmp('ule', sch.c[t][r - 1], sch.c[t][r], PW)
                m.pruner.add_base(c)
    cap0 = m.hard_loop_cap; m.hard_loop_cap = getattr(sc, 'mt_loop_cap', 200)
    m.do_restrict = True
    scap0 = m.sym_loop_cap; m.sym_loop_cap = getattr(sc, 'mt_sym_loop_cap', 24)
    t0 = time.time()
    for r in range(1, K + 1):
        for t in range(1, T + 1):
            th = m.threads[t]
            m.cur = th
            th.reset_pass()
            m.pass_no = (r - 1) * T + (t - 1) + 1
            m.win = sch.window(t, r)
            if m.win is None: continue
            m.before = sch.before(t, r)
            if m.race is not None: m.race.reset_pass(t)
            m.upto = sch.upto(t, r)
            m.win_hi = sch.c[t][r] if m.path_kill else None
            m.pass_written = set()
            m.run_entry('vp_thread%d' % t)
            m.thread_exit()
            if log: log('    pass r%d t%d: %d terms, %d obligations, %.1fs' % (r, t, term.nterms(), len(m.obligations), time.time() - t0))
            if sch.posmap is not None and sch.missing and not getattr(m, 'allow_missing', False):
                # operations without a rank make every later window test symbolic: re-rank right away
                m.win = None; m.before = None; m.upto = None; m.do_restrict = False; m.win_hi = None
                m.hard_loop_cap = cap0; m.sym_loop_cap = scap0
                raise MissingKey(sch)
    m.win = None; m.before = None; m.upto = None; m.do_restrict = False; m.win_hi = None
    m.hard_loop_cap = cap0; m.sym_loop_cap = scap0
    m.cur = m.threads[0]
    m.pass_no = K * T + 1
    sch.finish()
    if sch.posmap is not None and sch.missing and not getattr(m, 'allow_missing', False):
        raise MissingKey(sch)


def optime(m, op, begin):
    """pass number (term, 8 bit) in which op's begin/end marker executed; 0 if never"""
    r = 0
    for eg, p, tid in m.optimes.get((op, begin), []):
        r = Ite(eg, p, r, 8)
    return r


def replay(sc, model, violation):
    """concrete re-execution of the IR: inputs and every context-switch point are fixed to the model's values, so the
    machine runs as a plain interpreter (all guards fold to constants); the violation must show up as a definitely
    true obligation of the same kind."""
    from . import scenario as S
    fixed = {int(k[3:]): v for k, v in model.items() if k.startswith('nd_') and k[3:].isdigit()}
    sched = {k: v for k, v in model.items() if k.startswith('cs_')}
    named = {k: v for k, v in model.items() if k.startswith('rdtsc_')}
    m, mod, tm = S.execute(sc, fixed=fixed, fixed_sched=sched, fixed_named=named)
    if violation['kind'] == 'progress':
        # with everything concrete a non-terminating loop runs into the iteration cap (its continuation is decided concretely)
        hits = [w for g, w in m.unwound if g is True or (g is not False and '[iteration cap' in w)]
        return {'reproduced': bool(hits), 'how': ('concrete re-execution under schedule %s: the operation is still looping after the unrolled iterations (%s)' % (sched, hits[0][-80:])) if hits else 'not reproduced', 'output': '; '.join(hits[:2])}
    hits = [ob.where for ob in m.obligations if ob.cond is True and ob.kind == violation['kind']]
    same = [w for w in hits if w == violation['where']]
    symbolic_left = sum(1 for ob in m.obligations if ob.cond is not True)
    ok = bool(same or hits)
    return {'reproduced': ok,
            'how': ('concrete re-execution of the IR under schedule %s reaches the violation' % sched) if ok else 'not reproduced by concrete re-execution',
            'output': '; '.join((same or hits)[:3]), 'residual_symbolic_obligations': symbolic_left}
