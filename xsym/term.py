"""xsym term DAG: hash-consed bit-vector / Bool terms with eager simplification.

Concrete bit-vectors are plain Python ints (already masked to their width), concrete Booleans are
Python bools.  Symbolic values are Term objects.  Width 0 means Bool.
A 'value set' (vs) is a dict {int: cond} describing a term that is an ite-tree over constants; the
conditions are mutually exclusive and jointly exhaustive.  Pointers live in this form.
"""
import sys
sys.setrecursionlimit(200000)

RANGES = {}       # var name -> (lo, hi): declared input ranges (vp_range), used to enumerate small values
VAR_DEFS = {}     # var name -> constant (positions of visible operations, fixed after execution)
VS_LIMIT = 64
PAIR_LIMIT = 1024


class Term:
    __slots__ = ('op', 'args', 'w', 'id', 'vs', 'ow', 'sm')

    def __repr__(self):
        return 't%d:%s/%d' % (self.id, self.op, self.w)


_table = {}
_terms = []
_xmemo = {}


def reset():
    _table.clear()
    del _terms[:]
    VAR_DEFS.clear()
    RANGES.clear()
    _xmemo.clear()
    _pvs_memo.clear()
    _pv_memo.clear()


def nterms():
    return len(_terms)


def _mk(op, w, args, ow=0):
    key = (op, w, args)
    t = _table.get(key)
    if t is None:
        t = Term()
        t.op = op; t.w = w; t.args = args; t.id = len(_terms); t.vs = False; t.ow = ow; t.sm = False
        _terms.append(t)
        _table[key] = t
    return t


def is_c(x):
    return not isinstance(x, Term)


def mask(w):
    return (1 << w) - 1


def var(name, w):
    return _mk('var', w, (name,))


def bvar(name):
    return _mk('var', 0, (name,))


def to_signed(v, w):
    return v - (1 << w) if v >> (w - 1) else v


# ------------------------------------------------------------------ Bool ops
def Not(a):
    if a is True: return False
    if a is False: return True
    if a.op == 'not': return a.args[0]
    return _mk('not', 0, (a,))


SM_LIMIT = 400


def _bound_of(l):
    """literal -> (term, lo, hi, excluded) over unsigned values, or None"""
    neg = False
    if l.op == 'not':
        neg = True; l = l.args[0]
    op = l.op
    if op not in ('ult', 'ule', 'eq'): return None
    a, b = l.args
    ca = not isinstance(a, Term); cb = not isinstance(b, Term)
    if ca == cb: return None
    top = (1 << l.ow) - 1
    if op == 'eq':
        x, c = (a, b) if cb else (b, a)
        return (x, c, c, None) if not neg else (x, 0, top, c)
    if cb:      # x op c
        x, c = a, b
        if op == 'ult': return (x, 0, c - 1, None) if not neg else (x, c, top, None)
        return (x, 0, c, None) if not neg else (x, c + 1, top, None)
    x, c = b, a  # c op x
    if op == 'ult': return (x, c + 1, top, None) if not neg else (x, 0, c, None)
    return (x, c, top, None) if not neg else (x, 0, c - 1, None)


def _lit_summary(t):
    lits = {t.id: t}
    bd = {}; xl = {}
    b = _bound_of(t)
    if b is not None:
        x, lo, hi, ex = b
        bd[x.id] = (lo, hi, frozenset((ex,)) if ex is not None else frozenset())
        xl[x.id] = (t.id,)
    return (lits, bd, xl)


def _merge_bounds(bd, xid, lo, hi, ex):
    """merge (lo, hi, ex) into bd[xid]; returns False on contradiction"""
    o = bd.get(xid)
    if o is not None:
        lo = max(lo, o[0]); hi = min(hi, o[1]); ex = ex | o[2]
    if lo > hi: return False
    while lo in ex and lo <= hi: lo += 1
    while hi in ex and hi >= lo: hi -= 1
    if lo > hi: return False
    bd[xid] = (lo, hi, ex)
    return True


def _summary(t):
    """conjunction summary (lits {id: literal}, bounds {xid: (lo, hi, excluded)}, xl {xid: ids of the literals bounding x}) or None"""
    sm = t.sm
    if sm is not False: return sm
    if t.op == 'and' and t.w == 0:
        # chain node created by _chain(): combine the children lazily
        sa = _summary(t.args[0]); sb = _summary(t.args[1])
        sm = None
        if sa is not None and sb is not None and len(sa[0]) + len(sb[0]) <= SM_LIMIT:
            lits = dict(sa[0]); lits.update(sb[0])
            bd = dict(sa[1]); ok = True
            for xid, (lo, hi, ex) in sb[1].items():
                if not _merge_bounds(bd, xid, lo, hi, ex): ok = False; break
            if ok:
                xl = dict(sa[2])
                for xid, ids in sb[2].items():
                    o = xl.get(xid)
                    xl[xid] = ids if o is None else tuple(sorted(set(o) | set(ids)))
                sm = (lits, bd, xl)
    else:
        sm = _lit_summary(t)
    t.sm = sm
    return sm


def _neg_in(l, lits):
    if l.op == 'not': return l.args[0].id in lits
    n = _table.get(('not', 0, (l,)))
    return n is not None and n.id in lits


def _chain(ls, sm=None):
    """left-nested conjunction of the literals ls (sorted by id), without simplification"""
    r = ls[0]
    for l in ls[1:]:
        r = _mk('and', 0, (r, l) if r.id < l.id else (l, r))
    if sm is not None and r.op == 'and' and r.sm is False: r.sm = sm
    return r


def And(a, b):
    if a is False or b is False: return False
    if a is True: return b
    if b is True: return a
    if a is b: return a
    if (a.op == 'not' and a.args[0] is b) or (b.op == 'not' and b.args[0] is a): return False
    # absorb: a and (a and x)
    if b.op == 'and' and (b.args[0] is a or b.args[1] is a): return b
    if a.op == 'and' and (a.args[0] is b or a.args[1] is b): return a
    if a.id > b.id: a, b = b, a
    r = _table.get(('and', 0, (a, b)))
    if r is not None: return r
    sa = _summary(a); sb = _summary(b)
    if sa is None or sb is None:
        r = _mk('and', 0, (a, b)); r.sm = None
        return r
    la, ba, xa = sa; lb, bb, xb = sb
    if len(la) < len(lb):
        la, lb = lb, la; ba, bb = bb, ba; xa, xb = xb, xa; big, small = b, a
    else:
        big, small = a, b
    new = [l for i, l in lb.items() if i not in la]
    if not new: return big
    for l in new:
        if _neg_in(l, la): return False
    bd = ba; xl = xa; keep = []; drop = None
    for l in new:
        bnd = _bound_of(l)
        if bnd is None:
            keep.append(l); continue
        x, lo, hi, ex = bnd
        xid = x.id
        o = bd.get(xid)
        if o is not None:
            clo, chi, cex = o
            if ex is None:
                if clo >= lo and chi <= hi: continue            # implied by what is already there
                if chi < lo or clo > hi: return False
            else:
                if ex in cex or ex < clo or ex > chi: continue
                if clo == chi == ex: return False
        if bd is ba: bd = dict(ba); xl = dict(xa)
        if not _merge_bounds(bd, xid, lo, hi, frozenset((ex,)) if ex is not None else frozenset()): return False
        keep.append(l)
        if ex is None:
            # literals of the big conjunction that the new range literal makes redundant
            for lid in xa.get(xid, ()):
                if drop is not None and lid in drop: continue
                ob = _bound_of(la[lid])
                if (ob[3] is None and lo >= ob[1] and hi <= ob[2]) or (ob[3] is not None and (ob[3] < lo or ob[3] > hi)):
                    if drop is None: drop = set()
                    drop.add(lid)
        cur = xl.get(xid, ())
        if drop: cur = tuple(i for i in cur if i not in drop)
        xl[xid] = cur + (l.id,)
    if not keep: return big
    n = len(la) + len(keep) - (len(drop) if drop else 0)
    if drop is None and len(keep) == len(lb):
        r = _mk('and', 0, (a, b))
        if r.sm is False:
            if n <= SM_LIMIT:
                lits = dict(la)
                for l in keep: lits[l.id] = l
                r.sm = (lits, bd, xl)
            else: r.sm = None
        return r
    if drop is None:
        lits = dict(la)
        for l in keep: lits[l.id] = l
        r = big
        for l in keep: r = _mk('and', 0, (r, l) if r.id < l.id else (l, r))
    else:
        lits = {i: l for i, l in la.items() if i not in drop}
        for l in keep: lits[l.id] = l
        r = _chain([lits[i] for i in sorted(lits)])
    if r.op == 'and' and r.sm is False:
        r.sm = (lits, bd, xl) if n <= SM_LIMIT else None
    return r


def _conj_ids(lits, ids):
    r = True
    for i in sorted(ids): r = And(r, lits[i])
    return r


def Or(a, b):
    if a is True or b is True: return True
    if a is False: return b
    if b is False: return a
    if a is b: return a
    if (a.op == 'not' and a.args[0] is b) or (b.op == 'not' and b.args[0] is a): return True
    if b.op == 'or' and (b.args[0] is a or b.args[1] is a): return b
    if a.op == 'or' and (a.args[0] is b or a.args[1] is b): return a
    # diamond: (x and c) or (x and not c) -> x
    if a.op == 'and' and b.op == 'and':
        a0, a1 = a.args; b0, b1 = b.args
        for x, c, y, d in ((a0, a1, b0, b1), (a0, a1, b1, b0), (a1, a0, b0, b1), (a1, a0, b1, b0)):
            if x is y and ((c.op == 'not' and c.args[0] is d) or (d.op == 'not' and d.args[0] is c)):
                return x
    # absorption: x or (x and y) -> x
    if b.op == 'and' and (b.args[0] is a or b.args[1] is a): return a
    if a.op == 'and' and (a.args[0] is b or a.args[1] is b): return b
    if a.id > b.id: a, b = b, a
    r = _table.get(('or', 0, (a, b)))
    if r is not None: return r
    if a.op == 'and' or b.op == 'and':
        # factor the common literals of two conjunctions: (C and x) or (C and y) = C and (x or y)
        sa = _summary(a); sb = _summary(b)
        if sa is not None and sb is not None:
            la = sa[0]; lb = sb[0]
            ra = [i for i in la if i not in lb]
            if not ra: return a                      # a's literals are a subset of b's: a is the weaker one
            rb = [i for i in lb if i not in la]
            if not rb: return b
            if len(ra) < len(la):
                x = Or(_conj_ids(la, ra), _conj_ids(lb, rb))
                c = _conj_ids(la, [i for i in la if i in lb])
                r = And(c, x)
                if r is not True and r is not False: _table[('or', 0, (a, b))] = r
                return r
    else:
        ba = _bound_of(a)
        if ba is not None and ba[3] is None:
            bb = _bound_of(b)
            if bb is not None and bb[3] is None and bb[0] is ba[0]:
                if ba[1] <= bb[1] and ba[2] >= bb[2]: return a      # b's range inside a's
                if bb[1] <= ba[1] and bb[2] >= ba[2]: return b
                if ba[1] == 0 and bb[2] == (1 << (a.args[0] if a.op == 'not' else a).ow) - 1 and bb[1] <= ba[2] + 1: return True
                if bb[1] == 0 and ba[2] == (1 << (a.args[0] if a.op == 'not' else a).ow) - 1 and ba[1] <= bb[2] + 1: return True
    return _mk('or', 0, (a, b))


def implied(c, ctx, depth=0, memo=None):
    """True / False if Bool term c is decided by the conjunction summary ctx = (lits, bounds); None if unknown"""
    if c is True or c is False: return c
    if memo is not None:
        r = memo.get(c.id, 0)
        if r != 0: return r
        r = _implied(c, ctx, depth, memo)
        memo[c.id] = r
        return r
    return _implied(c, ctx, depth, {})


def _implied(c, ctx, depth, memo):
    lits, bd = ctx[0], ctx[1]
    if c.id in lits: return True
    if c.op == 'not':
        r = implied(c.args[0], ctx, depth + 1, memo)
        return None if r is None else (not r)
    if _neg_in(c, lits): return False
    b = _bound_of(c)
    if b is not None:
        x, lo, hi, ex = b
        o = bd.get(x.id)
        if o is not None:
            clo, chi, cex = o
            if ex is None:
                if clo >= lo and chi <= hi: return True
                if chi < lo or clo > hi: return False
            else:
                if ex in cex or ex < clo or ex > chi: return True
                if clo == chi == ex: return False
        return None
    if depth > 40 or len(memo) > 1500: return None
    if c.op == 'and' and c.w == 0:
        a = implied(c.args[0], ctx, depth + 1, memo)
        if a is False: return False
        b2 = implied(c.args[1], ctx, depth + 1, memo)
        if b2 is False: return False
        if a is True and b2 is True: return True
        return None
    if c.op == 'or' and c.w == 0:
        a = implied(c.args[0], ctx, depth + 1, memo)
        if a is True: return True
        b2 = implied(c.args[1], ctx, depth + 1, memo)
        if b2 is True: return True
        if a is False and b2 is False: return False
        return None
    return None


def restrict(t, g, budget=120):
    """simplify value t under the assumption that guard g holds: ite conditions decided by g's literal set / variable
    bounds are resolved (memory words are ite-chains over window tests of earlier stores)"""
    if not isinstance(t, Term) or not isinstance(g, Term): return t
    ctx = _summary(g)
    if ctx is None: return t
    memo = {}
    imemo = {}
    cnt = [0]

    def go(x):
        if not isinstance(x, Term) or x.op != 'ite': return x
        r = memo.get(x.id)
        if r is not None: return r[0]
        cnt[0] += 1
        if cnt[0] > budget: return x
        c, a, b = x.args
        d = implied(c, ctx, 0, imemo)
        if d is True: r = go(a)
        elif d is False: r = go(b)
        else:
            a2 = go(a); b2 = go(b)
            r = x if (a2 is a and b2 is b) else Ite(c, a2, b2, x.w)
        memo[x.id] = (r,)
        return r
    return go(t)


def AndL(xs):
    r = True
    for x in xs:
        r = And(r, x)
        if r is False: return False
    return r


def OrL(xs):
    r = False
    for x in xs:
        r = Or(r, x)
        if r is True: return True
    return r


def Implies(a, b):
    return Or(Not(a), b)


# ------------------------------------------------------------------ value sets
def get_vs(t):
    """value-set map of a bit-vector value or None"""
    if not isinstance(t, Term):
        return {t: True}
    v = t.vs
    if v is not False:
        return v
    r = None
    if t.op == 'ite':
        c, a, b = t.args
        va = get_vs(a)
        if va is not None:
            vb = get_vs(b)
            if vb is not None:
                r = {}
                nc = Not(c)
                for k, ck in va.items():
                    r[k] = And(c, ck)
                for k, ck in vb.items():
                    x = And(nc, ck)
                    r[k] = Or(r[k], x) if k in r else x
                r = {k: ck for k, ck in r.items() if ck is not False}
                if len(r) > VS_LIMIT:
                    r = None
    t.vs = r
    return r


_pvs_memo = {}
_pv_memo = {}


def get_pvs(t, w=64):
    """partial value set: ({const: cond}, other_cond) where other_cond covers non-constant leaves; or None"""
    if not isinstance(t, Term): return ({t: True}, False)
    r = _pvs_memo.get(t.id)
    if r is not None or t.id in _pvs_memo: return r
    r = None
    vs = get_vs(t)
    if vs is not None:
        r = (vs, False)
    elif t.op == 'var':
        rg = RANGES.get(t.args[0])
        if rg is None and t.w <= 4: rg = (0, (1 << t.w) - 1)
        if rg is not None and rg[1] - rg[0] < 32:
            r = ({k: Cmp('eq', t, k, t.w) for k in range(rg[0], rg[1] + 1)}, False)
    elif t.op == 'ite':
        c, a, b = t.args
        pa = get_pvs(a, w); pb = get_pvs(b, w)
        if pa is None: pa = ({}, True)
        if pb is None: pb = ({}, True)
        if pa[0] or pb[0]:
            nc = Not(c); mp = {}
            for k, ck in pa[0].items():
                x = And(c, ck)
                if x is not False: mp[k] = x
            for k, ck in pb[0].items():
                x = And(nc, ck)
                if x is not False: mp[k] = Or(mp[k], x) if k in mp else x
            other = Or(And(c, pa[1]), And(nc, pb[1]))
            if len(mp) <= VS_LIMIT: r = (mp, other)
    elif t.op in ('add', 'and', 'or', 'xor', 'mul', 'shl', 'lshr', 'sub') and not isinstance(t.args[1], Term):
        pa = get_pvs(t.args[0], w)
        if pa is not None and pa[0]:
            mp = {}
            for k, ck in pa[0].items():
                k2 = _fold(t.op, k, t.args[1], t.w)
                mp[k2] = Or(mp[k2], ck) if k2 in mp else ck
            r = (mp, pa[1])
    elif t.op in ('add', 'sub', 'mul', 'and', 'or', 'xor', 'shl', 'lshr'):
        pa = get_pvs(t.args[0], w); pb = get_pvs(t.args[1], w)
        if pa is not None and pb is not None and pa[0] and pb[0] and len(pa[0]) * len(pb[0]) <= PAIR_LIMIT:
            mp = {}
            for k1, c1 in pa[0].items():
                for k2, c2 in pb[0].items():
                    c = And(c1, c2)
                    if c is False: continue
                    k = _fold(t.op, k1, k2, t.w)
                    mp[k] = Or(mp[k], c) if k in mp else c
            if len(mp) <= VS_LIMIT: r = (mp, Or(pa[1], pb[1]))
    elif t.op in ('zext', 'sext', 'extract'):
        x = t.args[0] if t.op != 'extract' else t.args[2]
        pa = get_pvs(x, w)
        if pa is not None and pa[0]:
            mp = {}
            for k, ck in pa[0].items():
                if t.op == 'zext': k2 = k
                elif t.op == 'sext': k2 = to_signed(k, t.ow) & mask(t.w)
                else: k2 = (k >> t.args[1]) & mask(t.w)
                mp[k2] = Or(mp[k2], ck) if k2 in mp else ck
            r = (mp, pa[1])
    _pvs_memo[t.id] = r
    return r


def from_vs(m, w):
    """build an ite chain from a value-set map"""
    items = sorted(m.items(), key=lambda kv: kv[0])
    items = [(k, c) for k, c in items if c is not False]
    if not items:
        return 0
    for k, c in items:
        if c is True:
            return k
    res = items[-1][0]
    for k, c in reversed(items[:-1]):
        res = Ite(c, k, res, w)
    if isinstance(res, Term) and res.vs is False:
        res.vs = dict(items)
    return res


def _lift1(f, a, w):
    va = get_vs(a)
    if va is None or len(va) < 1:
        return None
    r = {}
    for k, c in va.items():
        k2 = f(k)
        r[k2] = Or(r[k2], c) if k2 in r else c
    return from_vs(r, w)


def _lift2(f, a, b, w):
    """f applied to two value sets (cross product), only if small"""
    va = get_vs(a); vb = get_vs(b)
    if va is None or vb is None or len(va) * len(vb) > PAIR_LIMIT:
        return None
    r = {}
    for k1, c1 in va.items():
        for k2, c2 in vb.items():
            c = And(c1, c2)
            if c is False: continue
            k = f(k1, k2)
            r[k] = Or(r[k], c) if k in r else c
    if len(r) > VS_LIMIT: return None
    return from_vs(r, w)


# ------------------------------------------------------------------ ite
def Ite(c, a, b, w):
    """w = width of a/b (0 for Bool)"""
    if c is True: return a
    if c is False: return b
    if a is b: return a
    if w == 0:
        if a is True: return Or(c, b)
        if a is False: return And(Not(c), b)
        if b is True: return Or(Not(c), a)
        if b is False: return And(c, a)
    else:
        if not isinstance(a, Term) and not isinstance(b, Term) and a == b:
            return a
    if c.op == 'not':
        c = c.args[0]; a, b = b, a
    # ite(c, x, ite(c, y, z)) -> ite(c, x, z)
    if isinstance(b, Term) and b.op == 'ite' and b.args[0] is c:
        b = b.args[2]
        if a is b: return a
    if isinstance(a, Term) and a.op == 'ite' and a.args[0] is c:
        a = a.args[1]
        if a is b: return a
    # ite(c1, x, ite(c2, x, y)) -> ite(c1|c2, x, y)
    if isinstance(b, Term) and b.op == 'ite' and b.args[1] is a and (isinstance(a, Term) or w == 0):
        return Ite(Or(c, b.args[0]), a, b.args[2], w)
    if isinstance(b, Term) and b.op == 'ite' and not isinstance(a, Term) and not isinstance(b.args[1], Term) \
            and w and b.args[1] == a:
        return Ite(Or(c, b.args[0]), a, b.args[2], w)
    return _mk('ite', w, (c, a, b))


# ------------------------------------------------------------------ bit-vector ops
def _fold(op, a, b, w):
    m = (1 << w) - 1
    if op == 'add': return (a + b) & m
    if op == 'sub': return (a - b) & m
    if op == 'mul': return (a * b) & m
    if op == 'and': return a & b
    if op == 'or': return a | b
    if op == 'xor': return a ^ b
    if op == 'shl': return (a << b) & m if b < w else 0
    if op == 'lshr': return a >> b if b < w else 0
    if op == 'ashr':
        s = to_signed(a, w)
        return (s >> min(b, w - 1)) & m
    if op == 'udiv': return (a // b) if b else m
    if op == 'urem': return (a % b) if b else a
    if op == 'sdiv':
        if b == 0: return m if to_signed(a, w) >= 0 else 1
        sa, sb = to_signed(a, w), to_signed(b, w)
        q = abs(sa) // abs(sb)
        if (sa < 0) != (sb < 0): q = -q
        return q & m
    if op == 'srem':
        if b == 0: return a
        sa, sb = to_signed(a, w), to_signed(b, w)
        r = abs(sa) % abs(sb)
        if sa < 0: r = -r
        return r & m
    raise Exception('fold ' + op)


_COMM = {'add', 'mul', 'and', 'or', 'xor'}


def BinOp(op, a, b, w):
    ca = not isinstance(a, Term); cb = not isinstance(b, Term)
    if ca and cb:
        return _fold(op, a, b, w)
    if ca and op in _COMM:
        a, b = b, a; ca, cb = cb, ca
    m = (1 << w) - 1
    if cb:
        if b == 0:
            if op in ('add', 'sub', 'or', 'xor', 'shl', 'lshr', 'ashr'): return a
            if op in ('mul', 'and'): return 0
        if op == 'and' and b == m: return a
        if op == 'or' and b == m: return m
        if op == 'mul' and b == 1: return a
        if op in ('udiv', 'sdiv') and b == 1: return a
        if op == 'urem' and b == 1: return 0
        if op == 'sub':
            op = 'add'; b = (-b) & m
        if op == 'add' and a.op == 'add' and not isinstance(a.args[1], Term):
            return BinOp('add', a.args[0], (a.args[1] + b) & m, w)
        if op == 'and' and a.op == 'and' and not isinstance(a.args[1], Term):
            return BinOp('and', a.args[0], a.args[1] & b, w)
        if op == 'or' and a.op == 'or' and not isinstance(a.args[1], Term):
            return BinOp('or', a.args[0], a.args[1] | b, w)
        # and with mask over zext: and(zext(x), m) where m covers all of x
        if op == 'and' and a.op == 'zext' and (b & mask(a.args[0].w)) == mask(a.args[0].w):
            return a
        if op in ('shl', 'lshr') and b >= w: return 0
        r = _lift1(lambda k: _fold(op, k, b, w), a, w)
        if r is not None: return r
    elif ca:
        if a == 0 and op in ('mul', 'and', 'shl', 'lshr', 'ashr', 'udiv', 'urem', 'sdiv', 'srem'): return 0
        r = _lift1(lambda k: _fold(op, a, k, w), b, w)
        if r is not None: return r
    else:
        if a is b:
            if op in ('and', 'or'): return a
            if op in ('xor', 'sub'): return 0
        if a.op == 'ite' or b.op == 'ite':
            r = _lift2(lambda x, y: _fold(op, x, y, w), a, b, w)
            if r is not None: return r
        if op in _COMM and a.id > b.id:
            a, b = b, a
    return _mk(op, w, (a, b))


def _cmpfold(op, a, b, w):
    if op == 'eq': return a == b
    if op == 'ult': return a < b
    if op == 'ule': return a <= b
    sa, sb = to_signed(a, w), to_signed(b, w)
    if op == 'slt': return sa < sb
    if op == 'sle': return sa <= sb
    raise Exception(op)


def Cmp(op, a, b, w):
    """op in eq ult ule slt sle; w = operand width. returns Bool"""
    ca = not isinstance(a, Term); cb = not isinstance(b, Term)
    if ca and cb:
        return _cmpfold(op, a, b, w)
    if a is b:
        return op in ('eq', 'ule', 'sle')
    if op == 'eq':
        if ca: a, b = b, a; ca, cb = cb, ca
        if cb:
            va = get_vs(a)
            if va is not None:
                return va.get(b, False)
            if a.op == 'add' and not isinstance(a.args[1], Term):
                return Cmp('eq', a.args[0], (b - a.args[1]) & mask(w), w)
            if a.op == 'zext':
                x = a.args[0]
                if b >> x.w: return False
                return Cmp('eq', x, b, x.w)
            if a.op == 'xor' and not isinstance(a.args[1], Term):
                return Cmp('eq', a.args[0], b ^ a.args[1], w)
        else:
            if a.op == 'ite' or b.op == 'ite':
                va = get_vs(a); vb = get_vs(b)
                if va is not None and vb is not None and len(va) * len(vb) <= 4 * VS_LIMIT:
                    r = False
                    for k, c1 in va.items():
                        c2 = vb.get(k)
                        if c2 is not None:
                            r = Or(r, And(c1, c2))
                    return r
            if a.id > b.id: a, b = b, a
    else:
        if cb:
            if op == 'ult' and b == 0: return False
            if op == 'ule' and b == mask(w): return True
            r = get_vs(a)
            if r is not None:
                return OrL(c for k, c in r.items() if _cmpfold(op, k, b, w))
            if a.op == 'zext' and op in ('ult', 'ule') and b > mask(a.args[0].w): return True
        elif ca:
            if op == 'ule' and a == 0: return True
            if op == 'ult' and a == mask(w): return False
            r = get_vs(b)
            if r is not None:
                return OrL(c for k, c in r.items() if _cmpfold(op, a, k, w))
        else:
            if a.op == 'ite' or b.op == 'ite':
                va = get_vs(a); vb = get_vs(b)
                if va is not None and vb is not None and len(va) * len(vb) <= VS_LIMIT:
                    r = False
                    for k1, c1 in va.items():
                        for k2, c2 in vb.items():
                            if _cmpfold(op, k1, k2, w):
                                r = Or(r, And(c1, c2))
                    return r
    t = _mk(op, 0, (a, b), w)
    return t


def Eq(a, b, w):
    return Cmp('eq', a, b, w)


def BoolEq(a, b):
    """equality of two Bools"""
    if a is True: return b
    if b is True: return a
    if a is False: return Not(b)
    if b is False: return Not(a)
    if a is b: return True
    return Or(And(a, b), And(Not(a), Not(b)))


def Extract(hi, lo, x, xw):
    """bits hi..lo of x (width xw)"""
    w = hi - lo + 1
    if lo == 0 and w == xw: return x
    if not isinstance(x, Term):
        return (x >> lo) & mask(w)
    if x.op == 'concat':
        h, l = x.args
        lw = l.w if isinstance(l, Term) else x.ow
        if hi < lw: return Extract(hi, lo, l, lw)
        if lo >= lw: return Extract(hi - lw, lo - lw, h, xw - lw)
    if x.op == 'zext':
        y = x.args[0]
        if hi < y.w: return Extract(hi, lo, y, y.w)
        if lo >= y.w: return 0
        if lo == 0: return ZExt(y, y.w, w)
    if x.op == 'extract':
        return Extract(hi + x.args[1], lo + x.args[1], x.args[2], x.ow)
    r = _lift1(lambda k: (k >> lo) & mask(w), x, w)
    if r is not None: return r
    if x.op == 'ite':
        # push extract through ite (memoised): memory words are ite-chains over concat'ed sub-word stores
        key = (hi, lo, x.id)
        r = _xmemo.get(key)
        if r is None:
            c, a, b = x.args
            r = Ite(c, Extract(hi, lo, a, xw), Extract(hi, lo, b, xw), w)
            _xmemo[key] = (r,)
            return r
        return r[0]
    if x.op in ('and', 'or', 'xor') and lo == 0 and not isinstance(x.args[1], Term):
        return BinOp(x.op, Extract(hi, 0, x.args[0], xw), x.args[1] & mask(w), w)
    if x.op in ('add', 'mul') and lo == 0 and not isinstance(x.args[1], Term):
        return BinOp(x.op, Extract(hi, 0, x.args[0], xw), x.args[1] & mask(w), w)
    return _mk('extract', w, (hi, lo, x), xw)


def Trunc(x, xw, w):
    return Extract(w - 1, 0, x, xw)


def ZExt(x, xw, w):
    if w == xw: return x
    if not isinstance(x, Term): return x
    if x.op == 'zext': return ZExt(x.args[0], x.args[0].w, w)
    r = _lift1(lambda k: k, x, w)
    if r is not None: return r
    return _mk('zext', w, (x,), xw)


def SExt(x, xw, w):
    if w == xw: return x
    if not isinstance(x, Term): return to_signed(x, xw) & mask(w)
    r = _lift1(lambda k: to_signed(k, xw) & mask(w), x, w)
    if r is not None: return r
    return _mk('sext', w, (x,), xw)


def Concat(h, hw, l, lw):
    """h:l"""
    if not isinstance(h, Term) and not isinstance(l, Term):
        return (h << lw) | l
    if not isinstance(h, Term) and h == 0:
        return ZExt(l, lw, hw + lw)
    # concat(extract(hi, k, x), extract(k-1, lo, x)) -> extract(hi, lo, x)
    if isinstance(h, Term) and isinstance(l, Term) and h.op == 'extract' and l.op == 'extract' \
            and h.args[2] is l.args[2] and h.args[1] == l.args[0] + 1:
        return Extract(h.args[0], l.args[1], h.args[2], h.ow)
    if isinstance(h, Term) and h.op == 'extract' and l is h.args[2] and h.args[1] == lw and h.ow >= hw + lw:
        return Extract(hw + lw - 1, 0, l, h.ow) if h.ow > hw + lw else l
    if isinstance(h, Term) and h.op == 'extract' and h.args[1] == lw and isinstance(l, Term) \
            and h.ow == hw + lw and l.op == 'extract' and False:
        pass
    return _mk('concat', hw + lw, (h, l), lw)


def BoolToBV(c, w):
    return Ite(c, 1, 0, w)


def BVToBool(x, w=1):
    if not isinstance(x, Term): return bool(x & 1) if w == 1 else x != 0
    return Not(Cmp('eq', x, 0, w))


# ------------------------------------------------------------------ possible values (for addresses)
def possible_values(t, w, limit=512, ranges=None):
    """over-approximate set of values of t or None if too many/unknown"""
    ranges = ranges or {}
    memo = _pv_memo.setdefault(limit, {})

    def go(x, xw):
        if not isinstance(x, Term):
            return {x}
        r = memo.get(x.id)
        if r is not None or x.id in memo:
            return r
        r = None
        vs = get_vs(x)
        if vs is not None:
            r = set(vs.keys())
        elif x.op == 'var':
            rg = ranges.get(x.args[0])
            if rg is not None and rg[1] - rg[0] < limit:
                r = set(range(rg[0], rg[1] + 1))
            elif x.w <= 6:
                r = set(range(1 << x.w))
        elif x.op == 'ite':
            a = go(x.args[1], xw); b = go(x.args[2], xw)
            if a is not None and b is not None and len(a | b) <= limit: r = a | b
        elif x.op in ('zext',):
            r = go(x.args[0], x.ow)
        elif x.op == 'sext':
            a = go(x.args[0], x.ow)
            if a is not None: r = {to_signed(k, x.ow) & mask(x.w) for k in a}
        elif x.op == 'extract':
            a = go(x.args[2], x.ow)
            if a is not None: r = {(k >> x.args[1]) & mask(x.w) for k in a}
            elif x.w <= 6: r = set(range(1 << x.w))
        elif x.op == 'concat':
            h, l = x.args
            lw = x.ow
            a = go(h, x.w - lw); b = go(l, lw)
            if a is not None and b is not None and len(a) * len(b) <= limit:
                r = {(i << lw) | j for i in a for j in b}
        elif x.op == 'and' and not isinstance(x.args[1], Term) and bin(x.args[1]).count('1') <= 8:
            a = go(x.args[0], xw)
            if a is not None: r = {k & x.args[1] for k in a}
            else:
                bits = [i for i in range(x.w) if (x.args[1] >> i) & 1]
                r = set()
                for n in range(1 << len(bits)):
                    v = 0
                    for j, bpos in enumerate(bits):
                        if (n >> j) & 1: v |= 1 << bpos
                    r.add(v)
        elif x.op == 'and':
            a = go(x.args[0], xw); b = go(x.args[1], xw)
            if a is not None and b is not None and len(a) * len(b) <= limit * 4:
                r = {i & j for i in a for j in b}
            else:
                known = a if a is not None else b
                if known is not None and all(bin(k).count('1') <= 8 for k in known) and len(known) <= 8:
                    r = set()
                    for k in known:
                        bits = [i for i in range(x.w) if (k >> i) & 1]
                        for n in range(1 << len(bits)):
                            v = 0
                            for j, bpos in enumerate(bits):
                                if (n >> j) & 1: v |= 1 << bpos
                            r.add(v)
                    if len(r) > limit: r = None
        elif x.op == 'urem' and isinstance(x.args[1], Term):
            a = go(x.args[0], xw); b = go(x.args[1], xw)
            if a is not None and b is not None and len(a) * len(b) <= limit * 4:
                r = {_fold('urem', i, j, x.w) for i in a for j in b}
            elif b is not None and 0 not in b and max(b) <= limit:
                r = set(range(max(b)))
        elif x.op == 'urem' and not isinstance(x.args[1], Term) and 0 < x.args[1] <= limit:
            a = go(x.args[0], xw)
            if a is not None: r = {k % x.args[1] for k in a}
            else: r = set(range(x.args[1]))
        elif x.op in ('add', 'sub', 'mul', 'and', 'or', 'xor', 'shl', 'lshr', 'ashr', 'udiv', 'urem', 'sdiv', 'srem'):
            a = go(x.args[0], x.w); b = go(x.args[1], x.w)
            if a is not None and b is not None and len(a) * len(b) <= limit * 4:
                r = {_fold(x.op, i, j, x.w) for i in a for j in b}
                if len(r) > limit: r = None
        memo[x.id] = r
        return r
    return go(t, w)


# ------------------------------------------------------------------ evaluation under a model
def evaluate(t, model, cache=None):
    """model: {varname: int/bool}. Unknown vars default to 0/False."""
    if not isinstance(t, Term): return t
    if cache is None: cache = {}
    stack = [t]
    while stack:
        x = stack[-1]
        if x.id in cache:
            stack.pop(); continue
        if x.op == 'var':
            v = VAR_DEFS.get(x.args[0])
            if v is None: v = model.get(x.args[0], 0)
            cache[x.id] = bool(v) if x.w == 0 else int(v) & mask(x.w)
            stack.pop(); continue
        pend = [a for a in x.args if isinstance(a, Term) and a.id not in cache]
        if x.op == 'ite' and not pend:
            pass
        if pend:
            stack.extend(pend); continue
        stack.pop()
        av = [cache[a.id] if isinstance(a, Term) else a for a in x.args]
        op = x.op
        if op == 'not': r = not av[0]
        elif op == 'and' and x.w == 0: r = av[0] and av[1]
        elif op == 'or' and x.w == 0: r = av[0] or av[1]
        elif op == 'ite': r = av[1] if av[0] else av[2]
        elif op in ('eq', 'ult', 'ule', 'slt', 'sle'): r = _cmpfold(op, av[0], av[1], x.ow)
        elif op == 'extract': r = (av[2] >> av[1]) & mask(x.w)
        elif op == 'zext': r = av[0]
        elif op == 'sext': r = to_signed(av[0], x.ow) & mask(x.w)
        elif op == 'concat': r = (av[0] << x.ow) | av[1]
        else: r = _fold(op, av[0], av[1], x.w)
        cache[x.id] = r
    return cache[t.id]


# ------------------------------------------------------------------ SMT-LIB emission
_SMTOP = {'add': 'bvadd', 'sub': 'bvsub', 'mul': 'bvmul', 'and': 'bvand', 'or': 'bvor', 'xor': 'bvxor',
          'shl': 'bvshl', 'lshr': 'bvlshr', 'ashr': 'bvashr', 'udiv': 'bvudiv', 'urem': 'bvurem',
          'sdiv': 'bvsdiv', 'srem': 'bvsrem', 'ult': 'bvult', 'ule': 'bvule', 'slt': 'bvslt', 'sle': 'bvsle', 'eq': '='}


def _c(v, w):
    if w == 0: return 'true' if v else 'false'
    return '(_ bv%d %d)' % (v, w)


class Emitter:
    """Incrementally emits define-funs for terms; remembers what was already defined."""
    def __init__(self):
        self.done = set()
        self.lines = []
        self.vars = {}

    def sort(self, w):
        return 'Bool' if w == 0 else '(_ BitVec %d)' % w

    def ref(self, a, w):
        if isinstance(a, Term):
            if a.op == 'var': return self.vname(a)
            return 't%d' % a.id
        return _c(a, w)

    def vname(self, t):
        n = t.args[0]
        return '|%s|' % n

    def define(self, root):
        if not isinstance(root, Term): return
        stack = [root]
        done = self.done; out = self.lines
        while stack:
            x = stack[-1]
            if x.id in done:
                stack.pop(); continue
            if x.op == 'var':
                done.add(x.id); stack.pop()
                self.vars[x.args[0]] = x
                d = VAR_DEFS.get(x.args[0])
                if d is not None: out.append('(define-fun %s () %s %s)' % (self.vname(x), self.sort(x.w), _c(d, x.w)))
                else: out.append('(declare-const %s %s)' % (self.vname(x), self.sort(x.w)))
                continue
            pend = [a for a in x.args if isinstance(a, Term) and a.id not in done]
            if pend:
                stack.extend(pend); continue
            stack.pop(); done.add(x.id)
            op = x.op; a = x.args; w = x.w
            if op == 'not': e = '(not %s)' % self.ref(a[0], 0)
            elif w == 0 and op in ('and', 'or'): e = '(%s %s %s)' % (op, self.ref(a[0], 0), self.ref(a[1], 0))
            elif op == 'ite': e = '(ite %s %s %s)' % (self.ref(a[0], 0), self.ref(a[1], w), self.ref(a[2], w))
            elif op in ('eq', 'ult', 'ule', 'slt', 'sle'):
                e = '(%s %s %s)' % (_SMTOP[op], self.ref(a[0], x.ow), self.ref(a[1], x.ow))
            elif op == 'extract': e = '((_ extract %d %d) %s)' % (a[0], a[1], self.ref(a[2], x.ow))
            elif op == 'zext': e = '((_ zero_extend %d) %s)' % (w - x.ow, self.ref(a[0], x.ow))
            elif op == 'sext': e = '((_ sign_extend %d) %s)' % (w - x.ow, self.ref(a[0], x.ow))
            elif op == 'concat': e = '(concat %s %s)' % (self.ref(a[0], w - x.ow), self.ref(a[1], x.ow))
            else: e = '(%s %s %s)' % (_SMTOP[op], self.ref(a[0], w), self.ref(a[1], w))
            out.append('(define-fun t%d () %s %s)' % (x.id, self.sort(w), e))

    def take(self):
        r = self.lines; self.lines = []
        return r


def show(t, depth=6):
    if not isinstance(t, Term): return hex(t) if isinstance(t, int) and not isinstance(t, bool) and t > 9 else str(t)
    if t.op == 'var': return t.args[0]
    if depth == 0: return '...'
    if t.op == 'extract': return '%s[%d:%d]' % (show(t.args[2], depth - 1), t.args[0], t.args[1])
    return '(%s %s)' % (t.op, ' '.join(show(a, depth - 1) for a in t.args))
