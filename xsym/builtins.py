"""Models of the externals the IR calls: allocation, C++ runtime, intrinsics, the vp_* harness API."""
import re
from .term import *
from .term import show
from . import ir
from .machine import Unsupported, EXC_TYPE_STD, Alloc

NEW = {'_Znwm', '_Znam', 'malloc', '_ZnwmRKSt9nothrow_t', '_ZnamRKSt9nothrow_t'}
NEW_ALIGNED = {'_ZnwmSt11align_val_t', '_ZnamSt11align_val_t', '_ZnwmSt11align_val_tRKSt9nothrow_t', '_ZnamSt11align_val_tRKSt9nothrow_t'}
DELETE = {'_ZdlPvSt11align_val_tRKSt9nothrow_t', '_ZdlPvRKSt9nothrow_t', '_ZdlPv', '_ZdaPv', '_ZdlPvm', '_ZdaPvm', 'free', '_ZdlPvSt11align_val_t', '_ZdaPvSt11align_val_t',
          '_ZdlPvmSt11align_val_t', '_ZdaPvmSt11align_val_t'}
ABORTS = {'abort', '_ZSt9terminatev', '__assert_fail', 'llvm.trap', '__cxa_pure_virtual', '__cxa_call_unexpected',
          '__cxa_deleted_virtual', '__stack_chk_fail', '_ZSt25__throw_bad_function_callv', 'exit', '_exit'}
NOPS = {'__cxa_atexit', '__cxa_guard_abort', 'sched_yield', 'llvm.x86.sse2.pause', '_ZNSt13runtime_errorC2EPKc',
        '_ZNSt13runtime_errorC1EPKc', '_ZNSt13runtime_errorD2Ev', '_ZNSt13runtime_errorD1Ev', '_ZNSt16invalid_argumentC1EPKc',
        '_ZNSt16invalid_argumentC2EPKc', '_ZNSt16invalid_argumentD1Ev', '_ZNSt16invalid_argumentD2Ev',
        '_ZNSt11logic_errorC2EPKc', '_ZNSt11logic_errorD2Ev', '_ZNSt9exceptionD2Ev', '__cxa_end_catch',
        '_ZNSt12out_of_rangeC1EPKc', '_ZNSt12out_of_rangeD1Ev', 'pthread_yield', 'vp_nop',
        '_ZNSt8ios_base4InitC1Ev', '_ZNSt8ios_base4InitD1Ev'}


def call(m, name, args, g, I):
    rty = I.ty if I is not None else ir.VOID
    if name.startswith('llvm.'):
        return intrinsic(m, name, args, g, I)
    if name.startswith('vp_'):
        return vp(m, name, args, g, I)
    if name in NEW or name in NEW_ALIGNED:
        eg, key = m.vis(g)
        al = args[1] if name in NEW_ALIGNED else 16
        if isinstance(al, Term): raise Unsupported('symbolic alignment')
        a = m.malloc(args[0], al, eg)
        m.event('alloc', eg, key, I, a)
        return g, a, False
    if name == 'calloc':
        eg, key = m.vis(g)
        a = m.malloc(BinOp('mul', args[0], args[1], 64), 16, eg, zero=True)
        return g, a, False
    if name == 'aligned_alloc':
        eg, key = m.vis(g)
        return g, m.malloc(args[1], args[0], eg), False
    if name == 'posix_memalign':
        eg, key = m.vis(g)
        a = m.malloc(args[2], args[1], eg)
        m.store(args[0], 8, a, g if m._private(args[0]) else eg)
        return g, 0, False
    if name in DELETE:
        eg, key = m.vis(g)
        m.event('free', eg, key, I, args[0])
        m.free(args[0], eg, name)
        return g, None, False
    if name in NOPS:
        return g, (0 if rty.k != 'void' else None), False
    if name in ABORTS:
        eg, key = m.vis(g)
        m.oblige('abort', eg, '%s called (%s)' % (name, m.where()))
        return False, (m.zero_of(rty) if rty.k != 'void' else None), False
    if name == '__cxa_guard_acquire':
        eg, key = m.vis(g)
        b = m.load(args[0], 1, eg)
        first = Cmp('eq', b, 0, 8)
        return g, m.keep(key, eg, BoolToBV(first, 32), ir.IntTy(32)), False
    if name == '__cxa_guard_release':
        eg, key = m.vis(g)
        m.store(args[0], 1, 1, eg)
        return g, None, False
    if name == '__cxa_thread_atexit':
        m.cur.atexit.append((g, args[0], args[1], tuple(m.keypath)))
        return g, 0, False
    if name == '__cxa_allocate_exception':
        eg, key = m.vis(g)
        a = m.malloc(BinOp('add', args[0], 0, 64), 16, eg, kind='exc')
        return g, a, False
    if name == '__cxa_free_exception':
        eg, key = m.vis(g)
        m.free(args[0], eg, name)
        return g, None, False
    if name == '__cxa_throw':
        t = m.cur
        t.exc_obj = Ite(g, args[0], t.exc_obj, 64); t.exc_type = Ite(g, args[1], t.exc_type, 64)
        return False, None, g
    if name == '__cxa_rethrow':
        return False, None, g
    if name == '__cxa_begin_catch':
        return g, args[0], False
    if name == '__cxa_get_exception_ptr':
        return g, args[0], False
    if name.startswith('_ZSt') and '__throw_' in name:
        t = m.cur
        t.exc_obj = Ite(g, 0, t.exc_obj, 64); t.exc_type = Ite(g, EXC_TYPE_STD, t.exc_type, 64)
        return False, None, g
    if name in ('pthread_mutex_lock', 'pthread_mutex_trylock'):
        eg, key = m.vis(g)
        w = m.load(args[0], 4, eg)
        free = Cmp('eq', w, 0, 32)
        if name == 'pthread_mutex_lock':
            m.assume(Implies(eg, free))
            m.store(args[0], 4, 1, eg)
            return g, 0, False
        m.store(args[0], 4, 1, And(eg, free))
        return g, m.keep(key, eg, Ite(free, 0, 16, 32), ir.IntTy(32)), False
    if name == 'pthread_mutex_unlock':
        eg, key = m.vis(g)
        m.store(args[0], 4, 0, eg)
        return g, 0, False
    if name in ('pthread_mutex_init', 'pthread_mutex_destroy'):
        return g, 0, False
    if name in ('memcpy', 'memmove', '__memcpy_chk', '__memmove_chk'):
        _memcpy(m, args[0], args[1], args[2], g)
        return g, args[0], False
    if name == 'memset':
        intrinsic(m, 'llvm.memset.p0i8.i64', [args[0], Trunc(args[1], 32, 8) if isinstance(args[1], Term) else args[1] & 255, args[2], False], g, I)
        return g, args[0], False
    if name == 'memcmp' or name == 'bcmp':
        n = args[2]
        if isinstance(n, Term): raise Unsupported('symbolic memcmp length')
        eg, key = m.vis(g)
        diff = False
        for i in range(n):
            a = m.load(BinOp('add', args[0], i, 64), 1, eg); b = m.load(BinOp('add', args[1], i, 64), 1, eg)
            diff = Or(diff, Not(Cmp('eq', a, b, 8)))
        return g, m.keep(key, eg, BoolToBV(diff, 32), ir.IntTy(32)), False
    if name == 'strlen':
        eg, key = m.vis(g)
        p = args[0]
        if isinstance(p, Term): raise Unsupported('symbolic strlen')
        n = 0
        while True:
            b = m.load(p + n, 1, eg)
            if isinstance(b, Term): raise Unsupported('symbolic strlen contents')
            if b == 0: break
            n += 1
        return g, n, False
    raise Unsupported('external function ' + name)


def _memcpy(m, dst, src, nterm, g):
    """copies between thread-private stack memory are replayed in every pass (not visible); a copy from shared memory into
    private memory is visible for its loads, whose results are kept across passes like those of ordinary loads, while the
    private stores are replayed; everything else is one visible operation"""
    pd = m._private(dst); ps = m._private(src)
    if pd and ps:
        for n, c in _lens(m, nterm, g): _copy(m, dst, src, n, And(g, c))
        return
    eg, key = m.vis(g)
    if pd and key is not None:
        for n, c in _lens(m, nterm, eg): _copy(m, dst, src, n, And(eg, c), keepkey=key, sg=And(g, c))
        return
    if ps and key is not None:
        for n, c in _lens(m, nterm, eg): _copy(m, dst, src, n, And(g, c), sg=And(eg, c))
        return
    for n, c in _lens(m, nterm, eg): _copy(m, dst, src, n, And(eg, c))


def _copy(m, dst, src, n, g, move=False, keepkey=None, sg=None):
    """g guards the loads, sg (default g) the stores; keepkey: keep the loaded values across passes under this key"""
    if n == 0: return
    if sg is None: sg = g
    if isinstance(dst, Term) or isinstance(src, Term):
        dc = m.cands(dst, g, 'memcpy'); sc = m.cands(src, g, 'memcpy')
        for d, c1 in dc:
            for s, c2 in sc:
                cc = And(c1, c2)
                gg = And(g, cc)
                if gg is not False: _copy(m, d, s, n, gg, move, None if keepkey is None else keepkey + (('m', d, s),), And(sg, cc))
        return
    chunks = []
    off = 0
    while off < n:
        c = 8
        while c > 1 and ((dst + off) % c or (src + off) % c or off + c > n): c //= 2
        chunks.append((off, c)); off += c
    vals = [(off, c, m.load(src + off, c, g, 'memcpy-read')) for off, c in chunks]
    if keepkey is not None:
        kept = []
        bf = m.before(keepkey[:len(keepkey) - 1] if isinstance(keepkey[-1], tuple) and keepkey[-1] and keepkey[-1][0] == 'm' else keepkey)
        for off, c, v in vals:
            sub = keepkey + (('c', off),)
            prev = m.hist.get(sub)
            r = v if prev is None else Ite(bf, prev, v, c * 8)
            m.hist[sub] = r
            kept.append((off, c, r))
        vals = kept
    for off, c, v in vals:
        m.store(dst + off, c, v, sg, 'memcpy-write')


def _lens(m, n, g):
    if not isinstance(n, Term): return [(n, True)]
    vs = get_vs(n)
    if vs is None:
        pv = possible_values(n, 64, 64, m.ranges)
        if pv is None:
            if not m.tolerant: m.defer_unsupported(g, 'symbolic mem* length %s in %s' % (show(n, 6)[:300], m.where()))
            return []
        return [(k, Cmp('eq', n, k, 64)) for k in sorted(pv)]
    return sorted(vs.items())


def intrinsic(m, name, args, g, I):
    rty = I.ty if I is not None else ir.VOID
    if name.startswith(('llvm.lifetime.', 'llvm.dbg.', 'llvm.experimental.noalias', 'llvm.invariant.', 'llvm.prefetch',
                        'llvm.donothing', 'llvm.var.annotation')):
        return g, None, False
    if name == 'llvm.assume':
        return g, None, False
    if name.startswith('llvm.expect'):
        return g, args[0], False
    if name.startswith('llvm.memcpy') or name.startswith('llvm.memmove'):
        _memcpy(m, args[0], args[1], args[2], g)
        return g, None, False
    if name.startswith('llvm.memset'):
        if m._private(args[0]): eg = g          # thread-private stack memory: not a context-switch point, replayed in every pass
        else: eg, key = m.vis(g)
        b = args[1]
        for n, c in _lens(m, args[2], eg):
            gg = And(eg, c)
            if gg is False: continue
            for d, c1 in m.cands(args[0], gg, 'memset'):
                g2 = And(gg, c1)
                if g2 is False: continue
                off = 0
                while off < n:
                    ch = 8
                    while ch > 1 and ((d + off) % ch or off + ch > n): ch //= 2
                    if isinstance(b, Term):
                        v = b
                        for _ in range(ch - 1): v = Concat(v, v.w if isinstance(v, Term) else 8, b, 8)
                    else:
                        v = int.from_bytes(bytes([b]) * ch, 'little')
                    m.store(d + off, ch, v, g2, 'memset')
                    off += ch
        return g, None, False
    mm = re.match(r'llvm\.(ctlz|cttz|ctpop|bswap|abs)\.i(\d+)$', name)
    if mm:
        op, w = mm.group(1), int(mm.group(2)); x = args[0]
        if op == 'ctlz':
            r = w
            for i in range(w):            # highest set bit wins: iterate from low to high
                r = Ite(Cmp('eq', Extract(i, i, x, w), 1, 1), w - 1 - i, r, w)
            return g, r, False
        if op == 'cttz':
            r = w
            for i in reversed(range(w)):
                r = Ite(Cmp('eq', Extract(i, i, x, w), 1, 1), i, r, w)
            return g, r, False
        if op == 'ctpop':
            r = 0
            for i in range(w): r = BinOp('add', r, ZExt(Extract(i, i, x, w), 1, w), w)
            return g, r, False
        if op == 'bswap':
            r = None; rw = 0
            for i in range(w // 8):
                b = Extract(i * 8 + 7, i * 8, x, w)
                if r is None: r, rw = b, 8
                else: r = Concat(r, rw, b, 8); rw += 8
            return g, r, False
        if op == 'abs':
            neg = Cmp('slt', x, 0, w)
            return g, Ite(neg, BinOp('sub', 0, x, w), x, w), False
    mm = re.match(r'llvm\.(fshl|fshr)\.i(\d+)$', name)
    if mm:
        w = int(mm.group(2)); a, b, c = args
        if isinstance(c, Term): raise Unsupported('symbolic funnel shift amount')
        c %= w
        if c == 0: return g, (a if mm.group(1) == 'fshl' else b), False
        if mm.group(1) == 'fshl':
            return g, BinOp('or', BinOp('shl', a, c, w), BinOp('lshr', b, w - c, w), w), False
        return g, BinOp('or', BinOp('shl', a, w - c, w), BinOp('lshr', b, c, w), w), False
    mm = re.match(r'llvm\.(umul|uadd|usub|smul|sadd|ssub)\.with\.overflow\.i(\d+)$', name)
    if mm:
        op, w = mm.group(1), int(mm.group(2)); a, b = args
        if op == 'umul':
            wide = BinOp('mul', ZExt(a, w, 2 * w), ZExt(b, w, 2 * w), 2 * w)
            return g, (Trunc(wide, 2 * w, w), Not(Cmp('eq', Extract(2 * w - 1, w, wide, 2 * w), 0, w))), False
        if op == 'uadd':
            s = BinOp('add', a, b, w)
            return g, (s, Cmp('ult', s, a, w)), False
        if op == 'usub':
            return g, (BinOp('sub', a, b, w), Cmp('ult', a, b, w)), False
        raise Unsupported(name)
    mm = re.match(r'llvm\.(umax|umin|smax|smin)\.i(\d+)$', name)
    if mm:
        op, w = mm.group(1), int(mm.group(2)); a, b = args
        lt = Cmp('ult' if op[0] == 'u' else 'slt', a, b, w)
        return g, (Ite(lt, b, a, w) if op.endswith('max') else Ite(lt, a, b, w)), False
    if name == 'llvm.eh.typeid.for':
        return g, m.typeid(args[0]), False
    if name == 'llvm.trap':
        eg, key = m.vis(g)
        m.oblige('abort', eg, 'llvm.trap (%s)' % m.where())
        return False, None, False
    if name.startswith('llvm.stacksave'): return g, 0, False
    if name.startswith('llvm.stackrestore'): return g, None, False
    if name == 'llvm.x86.sse2.pause': return g, None, False
    if name.startswith('llvm.is.constant'): return g, False, False
    if name.startswith('llvm.objectsize'): return g, mask(64), False
    raise Unsupported('intrinsic ' + name)


def _cid(x, what):
    if isinstance(x, Term): raise Unsupported(what + ' id must be concrete')
    return x


def _cids(x, what):
    """ids may be merged by the compiler into a select/phi: list of (id, cond)"""
    if not isinstance(x, Term): return [(x, True)]
    vs = get_vs(x)
    if vs is None: raise Unsupported(what + ' id must be concrete')
    return sorted(vs.items())


def vp(m, name, args, g, I):
    if name == 'vp_nondet':
        i = _cid(args[0], name)
        if i in m.fixed: return g, m.fixed[i] & mask(64), False
        v = m.nondets.get(i)
        if v is None: v = m.nondets[i] = var('nd_%d' % i, 64)
        return g, v, False
    if name == 'vp_range':
        i = _cid(args[0], name); lo = _cid(args[1], name); hi = _cid(args[2], name)
        if i in m.fixed: return g, m.fixed[i] & mask(64), False
        if lo == hi: return g, lo, False
        v = m.nondets.get(i)
        if v is None:
            w = max(1, (hi).bit_length())
            v0 = var('nd_%d' % i, w)
            v = m.nondets[i] = ZExt(v0, w, 64) if w < 64 else v0
            m.ranges['nd_%d' % i] = (0, (1 << w) - 1)
            from . import term as _T
            _T.RANGES['nd_%d' % i] = (lo, hi)
            # input ranges constrain the inputs themselves, not a path: they hold for every obligation
            if lo > 0: m.gassumptions.append(Cmp('ule', lo, v0, w))
            if hi < (1 << w) - 1: m.gassumptions.append(Cmp('ule', v0, hi, w))
        return g, v, False
    if name == 'vp_assume':
        eg, key = m.vis(g)
        m.assume(Implies(eg, args[0]))
        return g, None, False
    if name == 'vp_assert':
        eg, key = m.vis(g)
        for i, c in _cids(args[1], name):
            m.oblige('assert', And(And(eg, c), Not(args[0])), 'vp_assert #%d (%s)' % (i, m.where()), tag=i)
        return g, None, False
    if name == 'vp_cover':
        eg, key = m.vis(g)
        for i, c in _cids(args[0], name):
            m.covers[i] = Or(m.covers.get(i, False), And(eg, c))
        return g, None, False
    if name == 'vp_observe':
        eg, key = m.vis(g)
        i = _cid(args[0], name)
        st, val = m.observed.get(i, (False, 0))
        m.observed[i] = (Or(st, eg), Ite(eg, args[1], val, 64))
        return g, None, False
    if name in ('vp_op_begin', 'vp_op_end'):
        eg, key = m.vis(g)
        i = _cid(args[0], name)
        m.op_event(i, name == 'vp_op_begin', eg, key)
        return g, None, False
    if name == 'vp_thread_exit':
        m.thread_exit(g)
        return g, None, False
    if name == 'vp_heap_allocs':
        # oracle helper: number of heap allocations performed so far (term)
        eg, key = m.vis(g)
        r = 0
        seen = set()
        for al in m.heap:
            if id(al) in seen or al.kind != 'heap': continue
            seen.add(id(al))
            r = BinOp('add', r, BoolToBV(al.allocated, 64), 64)
        return g, m.keep(key, eg, r, ir.IntTy(64)), False
    if name == 'vp_alive':
        # returns 1 iff the pointer is the base of a live heap allocation (oracle helper, not a program action)
        eg, key = m.vis(g)
        r = False
        for a, c in m.cands(args[0], eg, 'vp_alive'):
            al = m.alloc_of(a)
            if al is not None and al.kind == 'heap':
                r = Or(r, And(c, al.live()))
        return g, m.keep(key, eg, r, ir.IntTy(1)), False
    raise Unsupported('unknown harness call ' + name)
