"""Happens-before data-race oracle (C03a) over the sequentially consistent interleavings explored by mt.py.

Clocks are positions of visible operations (16-bit terms).  know[t][u] = highest position of thread u whose operation is
known to happen-before thread t's current point.  Synchronisation follows the *declared* memory orders of the IR:
release/seq_cst stores and RMWs publish (own position, own knowledge) at the location, acquire/seq_cst loads and RMWs that
read the location join it; relaxed loads feed a later acquire fence, a release fence feeds later relaxed stores; a
relaxed plain store by anyone ends the release sequence (C++20).  Plain (non-atomic) accesses to heap/global cells are
checked FastTrack style: a read races with another thread's last write, a write with another thread's last write/read,
unless that access is covered by know.  Thread start/join order everything in vp_setup / vp_final with the threads.
"""
from .term import *
from . import term as T

PW = 16


def _max(a, b):
    if a is b: return a
    if not isinstance(a, Term) and not isinstance(b, Term): return max(a, b)
    if not isinstance(a, Term) and a == 0: return b
    if not isinstance(b, Term) and b == 0: return a
    return Ite(Cmp('ult', a, b, PW), b, a, PW)


ACQ = ('acquire', 'acq_rel', 'seq_cst')
REL = ('release', 'acq_rel', 'seq_cst')


class Race:
    def __init__(self, m, nthreads):
        self.m = m; self.T = nthreads
        self.rel = {}        # addr -> {u: term}
        self.lastw = {}      # cell -> {u: term}
        self.lastr = {}
        self.hist = {}
        self.reset_pass(1)
        self.count = 0

    def others(self, t):
        return [u for u in range(1, self.T + 1) if u != t]

    def reset_pass(self, t):
        self.know = {u: 0 for u in range(1, self.T + 1)}
        self.pend = {u: 0 for u in range(1, self.T + 1)}      # from relaxed loads, for a later acquire fence
        self.relf = None                                       # (pos, know) at the last release fence

    # thread-local shadow state with the same keep-semantics as results of visible operations
    def _tl(self, key, name, eg, new, cur):
        res = Ite(eg, new, cur, PW)
        if key is not None:
            hk = (key, name)
            if hk in self.hist:
                res = Ite(self.m.before(key), self.hist[hk], res, PW)
            self.hist[hk] = res
        return res

    def pos(self, key):
        m = self.m
        if key is None: return 0
        return m.sched.posvar(m.cur.tid, key)

    def event(self, kind, order, order2, eg, key, p, ok=None):
        m = self.m
        t = m.cur.tid
        if t == 0 or m.win is None or eg is False: return
        if kind == 'fence':
            if order in ACQ:
                for u in self.others(t):
                    self.know[u] = self._tl(key, 'k%d' % u, eg, _max(self.know[u], self.pend[u]), self.know[u])
            if order in REL:
                snap = {u: self.know[u] for u in self.others(t)}
                snap[t] = self.pos(key)
                old = self.relf
                if old is None: self.relf = {u: self._tl(key, 'f%d' % u, eg, v, 0) for u, v in snap.items()}
                else: self.relf = {u: self._tl(key, 'f%d' % u, eg, v, old[u]) for u, v in snap.items()}
            return
        cs = m.cands(p, eg, 'race-shadow')
        me = self.pos(key)
        for a, c in cs:
            g = And(eg, c)
            if g is False: continue
            al = m.alloc_of(a)
            if al is None or al.kind not in ('heap', 'global'): continue
            if kind in ('aload', 'rmw', 'cmpxchg'):
                r = self.rel.get(a)
                if r is not None:
                    if kind == 'aload': acq = order in ACQ
                    elif kind == 'rmw': acq = order in ACQ
                    else: acq = None
                    for u in self.others(t):
                        ru = r.get(u, 0)
                        if kind == 'cmpxchg':
                            ga = And(g, ok) if order in ACQ else False
                            gb = And(g, Not(ok)) if order2 in ACQ else False
                            gj = Or(ga, gb)
                            gp = And(g, Not(gj))
                        else:
                            gj = g if acq else False
                            gp = g if not acq else False
                        if gj is not False:
                            self.know[u] = self._tl(key, 'k%d@%x' % (u, a), gj, _max(self.know[u], ru), self.know[u])
                        if gp is not False:
                            self.pend[u] = self._tl(key, 'p%d@%x' % (u, a), gp, _max(self.pend[u], ru), self.pend[u])
            if kind in ('astore', 'rmw', 'cmpxchg'):
                gw = And(g, ok) if kind == 'cmpxchg' else g
                if gw is False: continue
                r = dict(self.rel.get(a) or {})
                releasing = order in REL
                for u in range(1, self.T + 1):
                    old = r.get(u, 0)
                    if releasing:
                        new = me if u == t else self.know[u]
                        if kind != 'astore': new = _max(old, new)
                    else:
                        if kind == 'astore':
                            new = self.relf[u] if self.relf is not None else 0      # relaxed store: only a preceding release fence publishes
                        else:
                            new = _max(old, self.relf[u]) if self.relf is not None else old   # relaxed RMW continues the release sequence
                    r[u] = Ite(gw, new, old, PW)
                self.rel[a] = r
            if kind in ('load', 'store'):
                cell = a
                lw = self.lastw.get(cell) or {}
                lr = self.lastr.get(cell) or {}
                for u in self.others(t):
                    w = lw.get(u, 0)
                    bad = Cmp('ult', self.know[u], w, PW) if (isinstance(w, Term) or w != 0) else False
                    if kind == 'store':
                        rd = lr.get(u, 0)
                        if isinstance(rd, Term) or rd != 0: bad = Or(bad, Cmp('ult', self.know[u], rd, PW))
                    if bad is not False:
                        self.count += 1
                        m.oblige('data-race', And(g, bad), 'unsynchronised %s of %s+%d conflicts with thread %d (%s)' % (
                            'write' if kind == 'store' else 'read', al.site[-60:], a - al.base, u, m.where()))
                if kind == 'store':
                    lw = dict(lw); lw[t] = Ite(g, me, lw.get(t, 0), PW); self.lastw[cell] = lw
                else:
                    lr = dict(lr); lr[t] = Ite(g, me, lr.get(t, 0), PW); self.lastr[cell] = lr
