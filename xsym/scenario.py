"""Scenario = one harness TU + parameters; run_scenario executes it symbolically and decides all obligations."""
import os, time, json, subprocess, resource, traceback
from . import ir, run, term, solve
from .term import *
from .machine import Machine, Unsupported

VERIF = run.VERIF


class Scenario:
    def __init__(self, name, src, defines=(), threads=1, K=2, unwind=4, tier='quick', cover=(), timeout=None,
                 ndebug=True, note='', mt=None, unwind_map=None, prop=None, allow_unwound=False, assert_build=False,
                 stop=(), uninit_zero=False, lin=None, portfolio=None, expect_violation=False, progress=(), sym_loop_cap=None, max_recursion=None, race=False, prune=False):
        self.prune = prune
        self.name = name; self.src = src if os.path.isabs(src) else os.path.join(VERIF, 'harness', src)
        self.defines = list(defines); self.threads = threads; self.K = K; self.unwind = unwind; self.tier = tier
        self.cover = list(cover); self.timeout = timeout; self.ndebug = ndebug; self.note = note
        self.mt = (threads > 1) if mt is None else mt
        self.unwind_map = unwind_map or {}; self.prop = prop; self.allow_unwound = allow_unwound
        self.progress = tuple(progress); self.sym_loop_cap = sym_loop_cap; self.max_recursion = max_recursion; self.race = race
        self.stop = stop; self.uninit_zero = uninit_zero; self.lin = lin; self.portfolio = portfolio

    def bounds(self):
        b = {'threads': self.threads, 'loop_unwind_symbolic_iterations': self.unwind, 'defines': self.defines}
        if self.mt: b['rounds_K'] = self.K; b['max_context_switches'] = self.K * self.threads - 1
        return b


def execute(sc, fixed=None, log=None, fixed_sched=None, fixed_named=None):
    """compile + symbolically execute; returns (machine, module, timings).
    Multi-threaded scenarios are executed twice: a first run discovers the visible operations and ranks their key
    paths; the second run uses those ranks as constant positions so that window tests simplify."""
    txt, path, ct = run.compile_ir(sc.src, sc.defines, sc.ndebug)
    mod = ir.Module(txt)
    t0 = time.time()
    posmap = None
    if sc.mt and (fixed or fixed_sched or fixed_named):
        # replay: positions must be the ones of the symbolic run, so redo its ranking first (deterministic)
        from . import mt
        m0, _, _ = execute(sc)
        posmap = m0.sched.posmap if m0.sched.posmap is not None else m0.sched.ranks
        m = _execute1(sc, mod, fixed, dict(posmap), log, fixed_sched=fixed_sched, allow_missing=True, fixed_named=fixed_named)
    elif sc.mt:
        from . import mt
        if os.environ.get('XSYM_OLD_RANKING'):
            m = _execute1(sc, mod, fixed, None, None)
            keys = {t: set(ks) for t, ks in m.sched.keys.items()}
        else:
            keys = _discover(sc, mod, fixed)
        m = None
        for attempt in range(6 * sc.K * sc.threads + 4):
            posmap = {}
            for t, ks in keys.items():
                for i, k in enumerate(sorted(ks)): posmap[k] = i + 1
                posmap[('n', t)] = len(ks) + 1
            try:
                m = _execute1(sc, mod, fixed, posmap, log, fixed_sched=fixed_sched)
                break
            except mt.MissingKey as e:
                sch = e.args[0]
                n0 = sum(len(v) for v in keys.values())
                for t, ks in sch.keys.items(): keys[t] |= set(ks)
                if log: log('    (run %d met %d unranked operations; re-ranking %d -> %d operations)' % (attempt + 1, sch.missing, n0, sum(len(v) for v in keys.values())))
                m = None
        if m is None:
            if log: log('    (falling back to placeholder positions)')
            m = _execute1(sc, mod, fixed, None, log, strict=True)
    else:
        m = _execute1(sc, mod, fixed, None, log)
    return m, mod, {'compile_s': ct, 'exec_s': time.time() - t0, 'ir_path': path}


def _discover(sc, mod, fixed):
    from . import mt
    term.reset()
    m = Machine(mod, nthreads=max(1, sc.threads), unwind=sc.unwind, unwind_map=sc.unwind_map)
    m.uninit_zero = sc.uninit_zero; m.tolerant = True
    if sc.sym_loop_cap: m.sym_loop_cap = sc.sym_loop_cap
    if sc.max_recursion: m.max_recursion = sc.max_recursion
    if fixed: m.fixed = dict(fixed)
    m.run_ctors()
    if 'vp_setup' in mod.funcs: m.run_entry('vp_setup')
    return mt.discover(m, sc)


def _execute1(sc, mod, fixed, posmap, log, strict=False, fixed_sched=None, allow_missing=False, fixed_named=None):
    term.reset()
    m = Machine(mod, nthreads=max(1, sc.threads), unwind=sc.unwind, unwind_map=sc.unwind_map)
    m.uninit_zero = sc.uninit_zero
    if sc.sym_loop_cap: m.sym_loop_cap = sc.sym_loop_cap
    if sc.max_recursion: m.max_recursion = sc.max_recursion
    if sc.race and sc.mt:
        from .race import Race
        m.race = Race(m, sc.threads)
    m.posmap = posmap
    if sc.mt and posmap is not None and not os.environ.get('XSYM_NO_PRUNE') and not (fixed_sched or fixed_named):
        from . import z3b
        z3b.reset()
        m.pruner = z3b.Pruner(timeout_ms=int(os.environ.get('XSYM_PRUNE_MS', '15000'))); m.prune_iter = True
    if not sc.mt and getattr(sc, 'prune', False) and not fixed:
        from . import z3b
        z3b.reset()
        m.pruner = z3b.Pruner(timeout_ms=int(os.environ.get('XSYM_PRUNE_MS', '15000'))); m.prune_iter = True; m.do_restrict = True
    m.allow_missing = allow_missing
    if fixed_named: m.fixed_named = dict(fixed_named)
    m.fixed_sched = fixed_sched if posmap is not None else None
    m.tolerant = bool(sc.mt and posmap is None and not strict)
    if fixed: m.fixed = dict(fixed)
    m.run_ctors()
    if 'vp_setup' in mod.funcs: m.run_entry('vp_setup')
    if not sc.mt:
        for t in range(1, sc.threads + 1):
            m.cur = m.threads[t]
            m.run_entry('vp_thread%d' % t)
            m.thread_exit()
        m.cur = m.threads[0]
    else:
        from . import mt
        mt.run_threads(m, sc, log)
    if 'vp_final' in mod.funcs:
        m.cur = m.threads[0]
        m.run_entry('vp_final')
    if m.pruner is not None:
        pr = m.pruner
        m.stats['prune_calls'] = pr.calls; m.stats['prune_unsat'] = pr.pruned; m.stats['prune_model_hits'] = pr.model_hits
        m.stats['prune_unknown'] = pr.unknown; m.stats['prune_s'] = round(pr.time, 1)
    return m


def run_scenario(sc, timeout=120, log=None):
    t00 = time.time()
    try:
        m, mod, tm = execute(sc, log=log)
    except Unsupported as e:
        r = run.ScenarioResult(sc.name); r.error = 'unsupported: ' + str(e); r.bounds = sc.bounds(); r.wall = time.time() - t00
        return r
    except Exception as e:
        r = run.ScenarioResult(sc.name); r.error = 'engine error: ' + ''.join(traceback.format_exception_only(type(e), e)).strip() + ' @ ' + traceback.format_exc()[-600:]
        r.bounds = sc.bounds(); r.wall = time.time() - t00
        return r
    if log: log('  %s: executed in %.1fs (%d instr, %d terms, %d obligations, %d unwound)' % (
        sc.name, tm['exec_s'], m.stats['ins'], term.nterms(), len(m.obligations), len(m.unwound)))
    if log and m.loop_hot: log('  hot loops: %s' % dict(m.loop_hot.most_common(5)))
    if sc.lin is not None:
        sc.lin(m, sc)
    res = run.decide(m, sc.name, timeout=sc.timeout or timeout, expected_cover=sc.cover, log=log,
                     portfolio=sc.portfolio or solve.DEFAULT_PORTFOLIO, progress_tids=sc.progress)
    res.compile_time = tm['compile_s']; res.exec_time = tm['exec_s']; res.bounds = sc.bounds()
    res.wall = time.time() - t00
    res.nondet_names = sorted(k for k in m.nondets if isinstance(k, int))
    res.rss_mb = resource.getrusage(resource.RUSAGE_SELF).ru_maxrss // 1024
    # vacuity: every expected cover goal must be reachable
    for cid in sc.cover:
        st = res.cover.get(cid)
        if st != 'sat':
            res.inconclusive.append(run.Outcome('cover#%d' % cid, 'vacuity', st or 'never-reached', detail='coverage goal not reachable: scenario is (partly) vacuous'))
    if res.unwound_complete is not True and not sc.allow_unwound:
        # an execution needing more loop iterations than the bound exists (or could not be excluded): the bound is too
        # small for this scenario -> not a pass.  Scenarios with intentionally unbounded waits set allow_unwound.
        res.inconclusive.append(run.Outcome('unwinding-assertion', 'unwind', 'sat' if res.unwound_complete is False else 'unknown',
                                            detail='loop bound U=%d too small: %s' % (sc.unwind, '; '.join(sorted({w.split(' (U=')[0][-70:] for g, w in m.unwound}))[:300])))
    return res


# ------------------------------------------------------------------ native replay of sequential counterexamples
def native_build(sc, out, sanitize=True):
    cmd = ['g++', '-std=c++17', '-O1', '-g', '-DVP_NATIVE', '-I' + run.REPO, '-I' + os.path.join(VERIF, 'harness')]
    if sanitize: cmd += ['-fsanitize=address,undefined', '-fno-sanitize-recover=undefined']
    if sc.ndebug: cmd += ['-DNDEBUG']
    cmd += ['-D' + d for d in sc.defines] + [sc.src, os.path.join(VERIF, 'harness', 'vp_native.cpp'), '-o', out, '-lpthread']
    r = subprocess.run(cmd, stdout=subprocess.PIPE, stderr=subprocess.STDOUT, text=True)
    if r.returncode != 0: raise Exception('native build failed: ' + r.stdout[-2000:])


def native_replay(sc, values, timeout=20):
    """run the harness natively with the model's input values. returns dict(reproduced, output, how)"""
    os.makedirs(run.BUILD, exist_ok=True)
    exe = os.path.join(run.BUILD, 'replay_%s_%d' % (sc.name.replace('/', '_'), os.getpid()))
    native_build(sc, exe)
    env = dict(os.environ)
    env['VP_VALUES'] = ','.join('%d=%d' % (k, v) for k, v in sorted(values.items()))
    env['ASAN_OPTIONS'] = 'detect_leaks=0:abort_on_error=0'
    try:
        r = subprocess.run([exe], env=env, stdout=subprocess.PIPE, stderr=subprocess.STDOUT, text=True, timeout=timeout, errors='replace')
        out = r.stdout; rc = r.returncode
        how = None
        if 'VP_ASSERT_FAILED' in out: how = 'assertion failed natively'
        elif 'AddressSanitizer' in out: how = 'AddressSanitizer report'
        elif 'runtime error' in out: how = 'UBSan report'
        elif rc < 0 or rc >= 128: how = 'crash (signal %d)' % (-rc if rc < 0 else rc - 128)
        elif 'VP_ASSUME_FAILED' in out or 'VP_RANGE_VIOLATED' in out: how = None
    except subprocess.TimeoutExpired as e:
        out = (e.stdout or b'').decode('utf8', 'replace') if isinstance(e.stdout, bytes) else (e.stdout or '')
        how = 'no termination within %ds (hang)' % timeout; rc = -1
    finally:
        try: os.unlink(exe)
        except OSError: pass
    return {'reproduced': how is not None, 'how': how, 'output': out[-1500:], 'rc': rc}
