"""Scenario runner: compile harness -> IR -> symbolic execution -> obligations -> solver verdicts."""
import os, subprocess, time, hashlib, json, sys, resource
from . import ir, term, solve
from .term import *
from .machine import Machine, Unsupported

REPO = os.environ.get('XENIUM_REPO', '/repo')
VERIF = os.path.dirname(os.path.dirname(os.path.abspath(__file__)))
BUILD = os.environ.get('XSYM_BUILD', os.path.join(VERIF, 'build'))
CLANG = 'clang++-14'
OPT = '/usr/lib/llvm-14/bin/opt'
CFLAGS = ['-std=c++17', '-O1', '-fno-vectorize', '-fno-slp-vectorize', '-fno-unroll-loops', '-fno-builtin',
          '-DXENIUM_VERIF', '-I' + REPO, '-I' + os.path.join(VERIF, 'harness'), '-S', '-emit-llvm', '-Wno-everything']


def compile_ir(src, defines=(), ndebug=True, tag=None):
    """clang -> .ll -> opt normalisation; always regenerated from the current /repo tree"""
    os.makedirs(BUILD, exist_ok=True)
    key = hashlib.sha1((src + repr(sorted(defines)) + str(ndebug) + str(tag)).encode()).hexdigest()[:12]
    base = os.path.join(BUILD, os.path.basename(src).replace('.cpp', '') + '_' + key + '_%d' % os.getpid())
    ll = base + '.ll'; ll2 = base + '.n.ll'
    cmd = [CLANG] + CFLAGS + (['-DNDEBUG'] if ndebug else []) + ['-D' + d for d in defines] + [src, '-o', ll]
    t0 = time.time()
    r = subprocess.run(cmd, stdout=subprocess.PIPE, stderr=subprocess.STDOUT, text=True)
    if r.returncode != 0:
        raise Exception('clang failed for %s:\n%s' % (src, r.stdout[-3000:]))
    r = subprocess.run([OPT, '-S', '-passes=lowerswitch,loop-simplify,lcssa,instnamer', ll, '-o', ll2],
                       stdout=subprocess.PIPE, stderr=subprocess.STDOUT, text=True)
    if r.returncode != 0:
        raise Exception('opt failed: ' + r.stdout[-2000:])
    txt = open(ll2).read()
    os.unlink(ll)
    if not os.environ.get('XSYM_KEEP_IR'): os.unlink(ll2)
    return txt, ll2, time.time() - t0


class Outcome:
    """result of deciding one obligation (or one group of obligations)"""
    def __init__(self, name, kind, status, time=0.0, solver=None, detail=None, model=None, where=None):
        self.name = name; self.kind = kind; self.status = status; self.time = time; self.solver = solver
        self.detail = detail; self.model = model; self.where = where

    def to_json(self):
        return {'obligation': self.name, 'kind': self.kind, 'verdict': self.status, 'solver': self.solver,
                'time_s': round(self.time, 3), 'where': self.where, 'detail': self.detail}


class ScenarioResult:
    def __init__(self, name):
        self.name = name; self.outcomes = []; self.violations = []; self.inconclusive = []; self.stats = {}
        self.funcs = {}; self.bounds = {}; self.cover = {}; self.unwound_complete = None; self.error = None
        self.solver_time = 0.0; self.exec_time = 0.0; self.compile_time = 0.0

    def ok(self):
        return not self.violations and not self.inconclusive and self.error is None


def decide(m, sc_name, timeout=120, portfolio=solve.DEFAULT_PORTFOLIO, extra_goals=(), workdir=None,
           assume_no_unwind=True, check_unwind=True, expected_cover=(), log=None, max_violations=2, par=4, split_above=2500, max_chunks=3, progress_tids=()):
    """pose every obligation of machine m to the solver. Returns ScenarioResult"""
    res = ScenarioResult(sc_name)
    workdir = workdir or os.path.join(BUILD, 'smt')
    noun = []
    if assume_no_unwind:
        noun = [Not(g) for g, w in m.unwound if g is not True]
        if any(g is True for g, w in m.unwound):
            if progress_tids:
                res.violations.append({'kind': 'progress', 'where': 'loop exceeds ' + [w for g, w in m.unwound if g is True][0], 'model': {}, 'tag': None, 'obligation_index': -1})
                res.stats = dict(m.stats); res.funcs = dict(m.funcs_encoded)
                return res
            res.error = 'loop bound exceeded on every path: ' + '; '.join(w for g, w in m.unwound if g is True)
            return res

    # executions that touch an operation the engine cannot encode are excluded here and reported separately
    noun_unwind = list(noun)
    noun = noun + [Not(g) for g, w in getattr(m, 'unsupported', [])]
    import threading, concurrent.futures
    lock = threading.Lock()

    def ask(name, kind, goal, nass, where=None, use_noun=True):
        ass = m.gassumptions + m.assumptions[:nass] + (noun if use_noun is True else (noun_unwind if use_noun == 'unwind-only' else []))
        r = solve.check_sat(ass, goal, timeout, portfolio, workdir, tag=sc_name[:20])
        o = Outcome(name, kind, r.status, r.time, r.solver, r.error, r.model, where)
        with lock:
            res.solver_time += r.time
            res.outcomes.append(o)
            if log: log('    %-36s %-8s %6.2fs %s' % (name[:36], r.status, r.time, r.solver or r.error))
        return o, r

    def safety_chain(nass, obs, label):
        pending = list(obs)
        rounds = 0
        while pending:
            goal = OrL(ob.cond for i, ob in pending)
            name = 'safety%s[%d obligations, %d assumptions]' % (label, len(pending), nass)
            o, r = ask(name, 'safety-group', goal, nass)
            if r.status == 'unsat': break
            if r.status != 'sat':
                with lock: res.inconclusive.append(o)
                break
            cache = {}
            bad = [(i, ob) for i, ob in pending if evaluate(ob.cond, r.model, cache) is True]
            if not bad:
                o.status = 'unknown'; o.detail = 'model does not satisfy any disjunct (model parse?)'
                with lock: res.inconclusive.append(o)
                break
            i, ob = bad[0]
            with lock:
                res.violations.append({'kind': ob.kind, 'where': ob.where, 'model': r.model, 'tag': ob.tag if isinstance(ob.tag, int) else None,
                                       'obligation_index': i})
            pending = [(j, o2) for j, o2 in pending if (o2.kind, o2.where) != (ob.kind, ob.where)]
            rounds += 1
            if rounds >= max_violations: break

    def unsupported_task():
        goal = OrL(g for g, w in m.unsupported)
        o, r = ask('unsupported-operations-unreachable[%d]' % len(m.unsupported), 'engine-limit', goal, len(m.assumptions), use_noun='unwind-only')
        if r.status != 'unsat':
            msg = m.unsupported[0][1]
            if r.status == 'sat':
                cache = {}
                for g, w in m.unsupported:
                    if evaluate(g, r.model, cache) is True: msg = w; break
            o.detail = 'reachable operation outside the encodable subset: ' + msg
            with lock: res.inconclusive.append(o)

    def cover_task(cid, g):
        o, r = ask('cover#%d' % cid, 'cover', g, len(m.assumptions))
        with lock: res.cover[cid] = r.status

    def unwind_task():
        goal = OrL(g for g, w in m.unwound)
        o, r = ask('unwinding-assertion[%d loops]' % len(m.unwound), 'unwind', goal, len(m.assumptions), use_noun=False)
        res.unwound_complete = (r.status == 'unsat')

    def progress_task():
        # C16: the observed threads must finish their operations within the unrolled number of loop iterations from every
        # state the (arbitrarily stopped) other threads can leave behind
        import re as _re
        fl = [(g, w) for g, w in m.unwound if int(_re.search(r'tid (\d+)\)', w).group(1)) in progress_tids] if m.unwound else []
        if not fl: return
        goal = OrL(g for g, w in fl)
        o, r = ask('progress[%d loops of thread(s) %s]' % (len(fl), list(progress_tids)), 'progress', goal, len(m.assumptions), use_noun=False)
        if r.status == 'sat':
            cache = {}
            which = [w for g, w in fl if evaluate(g, r.model, cache) is True]
            with lock:
                res.violations.append({'kind': 'progress', 'where': 'loop exceeds %s' % (which[0] if which else '?'), 'model': r.model, 'tag': None, 'obligation_index': -1})
        elif r.status != 'unsat':
            with lock: res.inconclusive.append(o)

    tasks = []
    if progress_tids: tasks.append((progress_task, ()))
    groups = {}
    for i, ob in enumerate(m.obligations):
        groups.setdefault(ob.nassume, []).append((i, ob))
    for nass, obs in sorted(groups.items()):
        nchunks = 1 if len(obs) <= split_above else min(max_chunks, (len(obs) + split_above - 1) // split_above)
        for c in range(nchunks):
            tasks.append((safety_chain, (nass, obs[c::nchunks], '' if nchunks == 1 else '/%d' % c)))
    if getattr(m, 'unsupported', None): tasks.append((unsupported_task, ()))
    for cid, g in sorted(m.covers.items()): tasks.append((cover_task, (cid, g)))
    for cid in expected_cover:
        if cid not in m.covers: res.cover[cid] = 'never-reached'
    if check_unwind and m.unwound: tasks.append((unwind_task, ()))
    elif not m.unwound: res.unwound_complete = True
    with concurrent.futures.ThreadPoolExecutor(max_workers=par) as ex:
        futs = [ex.submit(f, *a) for f, a in tasks]
        for f in futs: f.result()
    res.outcomes.sort(key=lambda o: o.name)
    res.stats = dict(m.stats); res.stats['terms'] = term.nterms(); res.stats['obligations'] = len(m.obligations)
    res.stats['heap_cells'] = len(m.mem)
    res.funcs = dict(m.funcs_encoded)
    return res
