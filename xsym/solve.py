"""SMT back end: writes SMT-LIB2, runs z3 (5.1 / 4.8.12) and cvc5 as a portfolio, parses models."""
import os, re, subprocess, time, tempfile, threading, signal
from .term import Term, Emitter, evaluate, And, Not, OrL, AndL

SOLVERS = {
    'z3smt': ['z3-new', '-smt2', 'tactic.default_tactic=smt'],     # lazy SMT core: best on the Boolean-heavy guard formulas
    'z3new': ['z3-new', '-smt2'],
    'z3': ['z3', '-smt2'],
    'cvc5': ['cvc5', '--lang=smt2', '--produce-models', '--bitblast=eager'],
    'cvc5lazy': ['cvc5', '--lang=smt2', '--produce-models'],
}
# two z3 configurations by default; XSYM_PORTFOLIO=z3smt,z3new,cvc5 adds cvc5 (eager bit-blasting) as a third opinion
DEFAULT_PORTFOLIO = tuple((os.environ.get('XSYM_PORTFOLIO') or 'z3smt,z3new').split(','))


class Result:
    def __init__(self):
        self.status = 'unknown'; self.model = None; self.solver = None; self.time = 0.0; self.error = None

    def __repr__(self): return '<%s by %s in %.2fs>' % (self.status, self.solver, self.time)


def parse_model(txt):
    """parse (get-value ...) output: ((name value) ...) pairs; also accepts define-fun lines of (get-model)"""
    model = {}
    for m in re.finditer(r'\(\s*(\|[^|]*\||[^\s()]+)\s+(#x[0-9a-fA-F]+|#b[01]+|true|false|\(_ bv\d+ \d+\))\s*\)', txt):
        n = m.group(1).strip('|'); v = m.group(2)
        if v == 'true': model[n] = True
        elif v == 'false': model[n] = False
        elif v.startswith('#x'): model[n] = int(v[2:], 16)
        elif v.startswith('#b'): model[n] = int(v[2:], 2)
        else: model[n] = int(v.split()[1][2:])
    for m in re.finditer(r'\(define-fun\s+(\|[^|]*\||[^\s()]+)\s+\(\)\s+(?:Bool|\(_ BitVec \d+\))\s+([^\s()]+|\(_ bv\d+ \d+\))\s*\)', txt):
        n = m.group(1).strip('|'); v = m.group(2)
        if v == 'true': model[n] = True
        elif v == 'false': model[n] = False
        elif v.startswith('#x'): model[n] = int(v[2:], 16)
        elif v.startswith('#b'): model[n] = int(v[2:], 2)
        elif v.startswith('(_ bv'): model[n] = int(v.split()[1][2:])
    return model


def _child_setup():
    # own process group (so the whole solver can be killed) and die with the parent (no orphaned solvers burning CPU)
    os.setsid()
    try:
        import resource
        lim = int(os.environ.get('XSYM_SOLVER_MEM_GB', '8')) << 30
        resource.setrlimit(resource.RLIMIT_AS, (lim, lim))
    except Exception:
        pass
    try:
        import ctypes
        ctypes.CDLL('libc.so.6', use_errno=True).prctl(1, signal.SIGKILL)
    except Exception:
        pass


def run_query(text, timeout, portfolio=DEFAULT_PORTFOLIO, workdir=None, tag='q'):
    """run the SMT-LIB text on all solvers of the portfolio in parallel; first definite answer wins"""
    res = Result()
    workdir = workdir or tempfile.gettempdir()
    os.makedirs(workdir, exist_ok=True)
    fd, path = tempfile.mkstemp(prefix=tag + '_', suffix='.smt2', dir=workdir)
    with os.fdopen(fd, 'w') as f: f.write(text)
    procs = {}
    t0 = time.time()
    for s in portfolio:
        cmd = list(SOLVERS[s]) + [path]
        try:
            procs[s] = subprocess.Popen(cmd, stdout=subprocess.PIPE, stderr=subprocess.STDOUT, text=True, preexec_fn=_child_setup)
        except FileNotFoundError:
            continue
    outs = {}
    done = threading.Event()
    lock = threading.Lock()

    def waiter(s, p):
        out, _ = p.communicate()
        with lock: outs[s] = out
        first = out.strip().split('\n', 1)[0].strip() if out.strip() else ''
        if first == 'unsat' or (first == 'sat' and '(error' not in out):
            done.set()
        elif len(outs) == len(procs):
            done.set()
    ths = [threading.Thread(target=waiter, args=(s, p), daemon=True) for s, p in procs.items()]
    for t in ths: t.start()
    done.wait(timeout)
    for s, p in procs.items():
        if p.poll() is None:
            try: os.killpg(p.pid, signal.SIGKILL)
            except Exception: pass
    for t in ths: t.join(2)
    res.time = time.time() - t0
    errs = []
    for s in portfolio:
        out = outs.get(s)
        if not out: continue
        first = out.strip().split('\n', 1)[0].strip()
        if '(error' in out and first != 'unsat':
            errs.append('%s: %s' % (s, out.strip()[:300])); continue
        if first in ('sat', 'unsat'):
            res.status = first; res.solver = s
            if first == 'sat': res.model = parse_model(out)
            break
    if res.status == 'unknown':
        res.error = '; '.join(errs) if errs else ('timeout %.0fs' % timeout)
    if not os.environ.get('XSYM_KEEP_SMT'):
        try: os.unlink(path)
        except OSError: pass
    return res


def build_query(assumptions, goal, extra_defs=None):
    """SMT text asking whether goal is satisfiable under the assumptions"""
    em = Emitter()
    for a in assumptions: em.define(a)
    em.define(goal)
    lines = ['(set-logic QF_BV)', '(set-option :produce-models true)'] + em.take()
    for a in assumptions:
        if a is True: continue
        lines.append('(assert %s)' % em.ref(a, 0))
    lines.append('(assert %s)' % em.ref(goal, 0))
    lines.append('(check-sat)')
    from .term import VAR_DEFS
    names = [em.vname(v) for n, v in sorted(em.vars.items()) if n not in VAR_DEFS]
    for i in range(0, len(names), 200):
        lines.append('(get-value (%s))' % ' '.join(names[i:i + 200]))
    return '\n'.join(lines) + '\n', em


def check_sat(assumptions, goal, timeout=120, portfolio=DEFAULT_PORTFOLIO, workdir=None, tag='q'):
    """decide satisfiability of assumptions /\\ goal. Trivial cases are folded without a solver."""
    r = Result()
    if goal is False or any(a is False for a in assumptions):
        r.status = 'unsat'; r.solver = 'fold'; return r
    assumptions = [a for a in assumptions if a is not True]
    if goal is True and not assumptions:
        r.status = 'sat'; r.solver = 'fold'; r.model = {}; return r
    text, em = build_query(assumptions, goal)
    r = run_query(text, timeout, portfolio, workdir, tag)
    r.size = len(text)
    return r
