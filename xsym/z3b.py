"""In-process z3 bridge: converts xsym terms to z3 expressions (cached) for feasibility pruning and queries."""
import z3
from .term import Term

_cache = {}
_OPS = {'add': lambda a, b: a + b, 'sub': lambda a, b: a - b, 'mul': lambda a, b: a * b, 'and': lambda a, b: a & b,
        'or': lambda a, b: a | b, 'xor': lambda a, b: a ^ b, 'shl': lambda a, b: a << b, 'lshr': z3.LShR,
        'ashr': lambda a, b: a >> b, 'udiv': z3.UDiv, 'urem': z3.URem, 'sdiv': lambda a, b: a / b, 'srem': z3.SRem}
_CMP = {'eq': lambda a, b: a == b, 'ult': z3.ULT, 'ule': z3.ULE, 'slt': lambda a, b: a < b, 'sle': lambda a, b: a <= b}


def reset():
    _cache.clear()


def conv(t, w=None):
    """z3 expression for term t (w needed only when t is a Python constant)"""
    if not isinstance(t, Term):
        if w == 0 or isinstance(t, bool): return z3.BoolVal(bool(t))
        return z3.BitVecVal(t, w)
    r = _cache.get(t.id)
    if r is not None: return r
    stack = [t]
    while stack:
        x = stack[-1]
        if x.id in _cache:
            stack.pop(); continue
        if x.op == 'var':
            from .term import VAR_DEFS
            d = VAR_DEFS.get(x.args[0])
            if d is not None: _cache[x.id] = z3.BitVecVal(d, x.w)
            else: _cache[x.id] = z3.Bool(x.args[0]) if x.w == 0 else z3.BitVec(x.args[0], x.w)
            stack.pop(); continue
        pend = [a for a in x.args if isinstance(a, Term) and a.id not in _cache]
        if pend:
            stack.extend(pend); continue
        stack.pop()
        op = x.op; a = x.args; wd = x.w

        def g(v, vw):
            if isinstance(v, Term): return _cache[v.id]
            return z3.BoolVal(bool(v)) if vw == 0 else z3.BitVecVal(v, vw)
        if op == 'not': e = z3.Not(g(a[0], 0))
        elif wd == 0 and op == 'and': e = z3.And(g(a[0], 0), g(a[1], 0))
        elif wd == 0 and op == 'or': e = z3.Or(g(a[0], 0), g(a[1], 0))
        elif op == 'ite': e = z3.If(g(a[0], 0), g(a[1], wd), g(a[2], wd))
        elif op in _CMP: e = _CMP[op](g(a[0], x.ow), g(a[1], x.ow))
        elif op == 'extract': e = z3.Extract(a[0], a[1], g(a[2], x.ow))
        elif op == 'zext': e = z3.ZeroExt(wd - x.ow, g(a[0], x.ow))
        elif op == 'sext': e = z3.SignExt(wd - x.ow, g(a[0], x.ow))
        elif op == 'concat': e = z3.Concat(g(a[0], wd - x.ow), g(a[1], x.ow))
        else: e = _OPS[op](g(a[0], wd), g(a[1], wd))
        _cache[x.id] = e
    return _cache[t.id]


class Pruner:
    """incremental feasibility checks under the machine's assumptions"""
    def __init__(self, timeout_ms=2000):
        self.s = z3.SimpleSolver()
        self.s.set('timeout', timeout_ms)
        self.nass = 0
        self.calls = 0; self.pruned = 0; self.time = 0.0

    def sync(self, assumptions):
        while self.nass < len(assumptions):
            a = assumptions[self.nass]; self.nass += 1
            if a is True: continue
            self.s.add(conv(a, 0))

    def feasible(self, cond):
        """False only if cond is definitely unsatisfiable under the assumptions"""
        import time
        if cond is True: return True
        if cond is False: return False
        t0 = time.time()
        self.calls += 1
        e = conv(cond, 0)
        self.s.push(); self.s.add(e)
        r = self.s.check()
        self.s.pop()
        dt = time.time() - t0
        self.time += dt
        import os
        if dt > 1.0 and os.environ.get('XSYM_DUMP_SLOW'):
            self.s.push(); self.s.add(e)
            open('/tmp/slow_%d.smt2' % self.calls, 'w').write(self.s.to_smt2()); self.s.pop()
            print('SLOW feasibility check %d: %.2fs -> %s' % (self.calls, dt, r))
        if r == z3.unsat:
            self.pruned += 1
            return False
        return True
