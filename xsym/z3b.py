"""In-process z3 bridge: converts xsym terms to z3 expressions (cached) for feasibility pruning and queries."""
import z3
from .term import Term

_cache = {}
_OPS = {'add': lambda a, b: a + b, 'sub': lambda a, b: a - b, 'mul': lambda a, b: a * b, 'and': lambda a, b: a & b,
        'or': lambda a, b: a | b, 'xor': lambda a, b: a ^ b, 'shl': lambda a, b: a << b, 'lshr': z3.LShR,
        'ashr': lambda a, b: a >> b, 'udiv': z3.UDiv, 'urem': z3.URem, 'sdiv': lambda a, b: a / b, 'srem': z3.SRem}
_CMP = {'eq': lambda a, b: a == b, 'ult': z3.ULT, 'ule': z3.ULE, 'slt': lambda a, b: a < b, 'sle': lambda a, b: a <= b}


def reset():
    _cache.clear()


def conv(t, w=None):
    """z3 expression for term t (w needed only when t is a Python constant)"""
    if not isinstance(t, Term):
        if w == 0 or isinstance(t, bool): return z3.BoolVal(bool(t))
        return z3.BitVecVal(t, w)
    r = _cache.get(t.id)
    if r is not None: return r
    stack = [t]
    while stack:
        x = stack[-1]
        if x.id in _cache:
            stack.pop(); continue
        if x.op == 'var':
            from .term import VAR_DEFS
            d = VAR_DEFS.get(x.args[0])
            if d is not None: _cache[x.id] = z3.BitVecVal(d, x.w)
            else: _cache[x.id] = z3.Bool(x.args[0]) if x.w == 0 else z3.BitVec(x.args[0], x.w)
            stack.pop(); continue
        pend = [a for a in x.args if isinstance(a, Term) and a.id not in _cache]
        if pend:
            stack.extend(pend); continue
        stack.pop()
        op = x.op; a = x.args; wd = x.w

        def g(v, vw):
            if isinstance(v, Term): return _cache[v.id]
            return z3.BoolVal(bool(v)) if vw == 0 else z3.BitVecVal(v, vw)
        if op == 'not': e = z3.Not(g(a[0], 0))
        elif wd == 0 and op == 'and': e = z3.And(g(a[0], 0), g(a[1], 0))
        elif wd == 0 and op == 'or': e = z3.Or(g(a[0], 0), g(a[1], 0))
        elif op == 'ite': e = z3.If(g(a[0], 0), g(a[1], wd), g(a[2], wd))
        elif op in _CMP: e = _CMP[op](g(a[0], x.ow), g(a[1], x.ow))
        elif op == 'extract': e = z3.Extract(a[0], a[1], g(a[2], x.ow))
        elif op == 'zext': e = z3.ZeroExt(wd - x.ow, g(a[0], x.ow))
        elif op == 'sext': e = z3.SignExt(wd - x.ow, g(a[0], x.ow))
        elif op == 'concat': e = z3.Concat(g(a[0], wd - x.ow), g(a[1], x.ow))
        else: e = _OPS[op](g(a[0], wd), g(a[1], wd))
        _cache[x.id] = e
    return _cache[t.id]


class Pruner:
    """incremental feasibility checks under the machine's assumptions.  Answers 'feasible' without the solver when one of
    the models of earlier satisfiable checks already satisfies the condition (and every base assumption)."""
    def __init__(self, timeout_ms=2000):
        self.s = z3.SimpleSolver()
        self.s.set('timeout', timeout_ms)
        self.nass = 0
        self.calls = 0; self.pruned = 0; self.time = 0.0; self.model_hits = 0; self.unknown = 0
        self.base = []
        self.models = []

    def add_base(self, t):
        if t is True: return
        self.base.append(t)
        self.s.add(conv(t, 0))

    def sync(self, assumptions):
        while self.nass < len(assumptions):
            a = assumptions[self.nass]; self.nass += 1
            self.add_base(a)

    def feasible(self, cond):
        """False only if cond is definitely unsatisfiable under the assumptions"""
        import time, os
        from .term import evaluate
        if cond is True: return True
        if cond is False: return False
        t0 = time.time()
        self.calls += 1
        for md, cache in reversed(self.models):
            if evaluate(cond, md, cache) is True and all(evaluate(a, md, cache) is True for a in self.base):
                self.model_hits += 1; self.time += time.time() - t0
                return True
        e = conv(cond, 0)
        self.s.push(); self.s.add(e)
        r = self.s.check()
        if r == z3.sat:
            m = self.s.model(); md = {}
            for d in m.decls():
                v = m[d]
                if z3.is_bool(v): md[d.name()] = z3.is_true(v)
                elif z3.is_bv_value(v): md[d.name()] = v.as_long()
            self.models.append((md, {}))
            if len(self.models) > 6: self.models.pop(0)
        elif r != z3.unsat: self.unknown += 1
        self.s.pop()
        dt = time.time() - t0
        self.time += dt
        if r == z3.unsat:
            self.pruned += 1
            return False
        return True
