"""LLVM-14 textual IR parser for the subset clang -O1 emits for xenium harnesses
(after opt -passes=lowerswitch,loop-simplify,lcssa,instnamer)."""
import re, collections

TOK = re.compile(r'''\s*(?:
   (?P<str>c?"(?:[^"\\]|\\.)*")
 | (?P<id>[%@](?:[-a-zA-Z$._0-9]+|"[^"]*"))
 | (?P<hex>0x[KLMHR]?[0-9A-Fa-f]+)
 | (?P<num>-?\d+(?:\.\d+(?:[eE][+-]?\d+)?)?)
 | (?P<word>[a-zA-Z_][\w.]*)
 | (?P<dots>\.\.\.)
 | (?P<meta>![\w.]*)
 | (?P<attr>\#\d+)
 | (?P<comdat>\$[-a-zA-Z$._0-9]+|\$"[^"]*")
 | (?P<p>[()\[\]{}<>,=*:|])
)''', re.X)


def tokenize(s):
    out = []
    pos = 0
    n = len(s)
    while pos < n:
        if s[pos] == ';':
            break
        m = TOK.match(s, pos)
        if not m:
            if s[pos:].strip() == '' or s[pos:].lstrip().startswith(';'):
                break
            raise Exception('tokenize: %r' % s[pos:pos + 40])
        pos = m.end()
        k = m.lastgroup
        out.append((k, m.group(k)))
    return out


# ------------------------------------------------------------------ types
class Ty:
    __slots__ = ('k', 'bits', 'elems', 'n', 'elem', 'packed', 'name', '_sa', '_offs')

    def __init__(self, k, **kw):
        self.k = k; self.bits = 0; self.elems = None; self.n = 0; self.elem = None; self.packed = False
        self.name = None; self._sa = None; self._offs = None
        for a, b in kw.items(): setattr(self, a, b)

    def __repr__(self):
        if self.k == 'int': return 'i%d' % self.bits
        if self.k == 'named': return '%' + self.name
        return self.k


PTR = Ty('ptr', bits=64)
VOID = Ty('void')
LABEL = Ty('label')
METADATA = Ty('metadata')
_INTS = {}


def IntTy(b):
    t = _INTS.get(b)
    if t is None:
        t = _INTS[b] = Ty('int', bits=b)
    return t


class Types:
    def __init__(self):
        self.named = {}

    def resolve(self, t):
        while t.k == 'named':
            t = self.named[t.name]
        return t

    def size_align(self, t):
        t = self.resolve(t)
        if t._sa: return t._sa
        k = t.k
        if k == 'int':
            b = max(1, (t.bits + 7) // 8); p = 1
            while p < b: p *= 2
            r = (p, min(p, 16))
        elif k == 'ptr': r = (8, 8)
        elif k == 'float': r = (t.bits // 8, t.bits // 8)
        elif k == 'array':
            s, a = self.size_align(t.elem); r = (s * t.n, a)
        elif k == 'vector':
            s, a = self.size_align(t.elem); r = (s * t.n, s * t.n)
        elif k == 'struct':
            off = 0; mal = 1; offs = []
            for e in t.elems:
                s, a = self.size_align(e)
                if t.packed: a = 1
                off = (off + a - 1) // a * a
                offs.append(off)
                off += s; mal = max(mal, a)
            t._offs = offs
            r = ((off + mal - 1) // mal * mal, mal)
        elif k == 'opaque': r = (0, 1)
        elif k == 'func': r = (8, 8)
        else: raise Exception('size of ' + k)
        t._sa = r
        return r

    def size(self, t): return self.size_align(t)[0]

    def field_off(self, t, i):
        t = self.resolve(t)
        self.size_align(t)
        return t._offs[i], t.elems[i]


class P:
    """token cursor"""
    def __init__(self, toks, mod):
        self.t = toks; self.i = 0; self.m = mod

    def peek(self, k=0):
        j = self.i + k
        return self.t[j] if j < len(self.t) else ('eof', '')

    def next(self):
        x = self.t[self.i]; self.i += 1
        return x

    def accept(self, v):
        if self.i < len(self.t) and self.t[self.i][1] == v:
            self.i += 1; return True
        return False

    def expect(self, v):
        x = self.next()
        if x[1] != v: raise Exception('expected %r got %r near %r' % (v, x, self.t[max(0, self.i - 6):self.i + 4]))

    def eof(self): return self.i >= len(self.t)

    # ---- types
    def type(self):
        k, v = self.next()
        if k == 'word':
            m = re.match(r'i(\d+)$', v)
            if m: t = IntTy(int(m.group(1)))
            elif v == 'void': t = VOID
            elif v == 'ptr': t = PTR
            elif v == 'float': t = Ty('float', bits=32)
            elif v == 'double': t = Ty('float', bits=64)
            elif v == 'x86_fp80': t = Ty('float', bits=128)
            elif v == 'label': t = LABEL
            elif v == 'metadata': t = METADATA
            elif v == 'opaque': t = Ty('opaque')
            else: raise Exception('type? ' + v)
        elif k == 'id' and v[0] == '%':
            t = Ty('named', name=v[1:].strip('"'))
        elif v == '[':
            n = int(self.next()[1]); self.expect('x'); e = self.type(); self.expect(']')
            t = Ty('array', n=n, elem=e)
        elif v == '{':
            t = Ty('struct', elems=self._tlist('}'))
        elif v == '<':
            if self.peek()[1] == '{':
                self.next(); el = self._tlist('}'); self.expect('>')
                t = Ty('struct', elems=el, packed=True)
            else:
                n = int(self.next()[1]); self.expect('x'); e = self.type(); self.expect('>')
                t = Ty('vector', n=n, elem=e)
        else:
            raise Exception('type? %r %r' % (v, self.t[self.i - 3:self.i + 3]))
        while True:
            v = self.peek()[1]
            if v == '*':
                self.next(); t = PTR
            elif v == '(':
                # function type
                self.next(); d = 1
                while d:
                    x = self.next()[1]
                    if x == '(': d += 1
                    elif x == ')': d -= 1
                t = Ty('func')
            elif v == 'addrspace':
                self.next(); self.expect('('); self.next(); self.expect(')')
            else:
                break
        return t

    def _tlist(self, close):
        el = []
        if self.accept(close): return el
        while True:
            el.append(self.type())
            if self.accept(close): return el
            self.expect(',')

    # ---- values
    VALUE_WORDS = {'null', 'undef', 'poison', 'true', 'false', 'zeroinitializer', 'none', 'getelementptr', 'bitcast',
                   'inttoptr', 'ptrtoint', 'addrspacecast', 'add', 'sub', 'mul', 'and', 'or', 'xor', 'shl', 'lshr',
                   'ashr', 'icmp', 'select', 'trunc', 'zext', 'sext', 'blockaddress', 'dso_local_equivalent', 'asm'}

    def skip_attrs(self):
        while True:
            k, v = self.peek()
            if k == 'word' and v not in self.VALUE_WORDS and v != 'to' and not TYWORD.match(v):
                self.next()
                if self.peek()[1] == '(' and v in ('dereferenceable', 'dereferenceable_or_null', 'sret', 'byval', 'align',
                                                     'byref', 'preallocated', 'inalloca', 'elementtype', 'allocsize'):
                    d = 0
                    while True:
                        x = self.next()[1]
                        if x == '(': d += 1
                        elif x == ')':
                            d -= 1
                            if d == 0: break
                elif v == 'align':
                    self.next()
            elif k == 'attr':
                self.next()
            else:
                break

    def value(self, ty):
        """parse a value of (already parsed) type ty -> Val tuple"""
        k, v = self.next()
        if k == 'num':
            if '.' in v: return ('f', v)
            return ('i', int(v) & ((1 << ty.bits) - 1) if ty.k == 'int' else int(v))
        if k == 'hex': return ('f', v)
        if k == 'id':
            if v[0] == '%': return ('l', v[1:].strip('"'))
            return ('g', v[1:].strip('"'))
        if k == 'str':
            return ('s', v)
        if v == 'asm':
            while self.peek()[0] == 'word': self.next()
            txt = self.next()[1]; self.expect(','); self.next()
            return ('asm', txt)
        if v in ('null', 'none'): return ('i', 0)
        if v == 'true': return ('i', 1)
        if v == 'false': return ('i', 0)
        if v in ('undef', 'poison'): return ('u',)
        if v == 'zeroinitializer': return ('z',)
        if v in ('bitcast', 'inttoptr', 'ptrtoint', 'addrspacecast', 'trunc', 'zext', 'sext'):
            self.expect('('); t1 = self.type(); x = self.value(t1); self.expect('to'); t2 = self.type(); self.expect(')')
            if v in ('bitcast', 'inttoptr', 'ptrtoint', 'addrspacecast'): return x if t1.k != 'vector' else ('cast', v, x, t1, t2)
            return ('cast', v, x, t1, t2)
        if v == 'getelementptr':
            self.accept('inbounds')
            self.expect('('); bt = self.type(); self.expect(',')
            pt = self.type(); base = self.value(pt); idx = []
            while self.accept(','):
                self.accept('inrange')
                it = self.type(); idx.append((it, self.value(it)))
            self.expect(')')
            return ('gep', bt, base, idx)
        if v in ('add', 'sub', 'mul', 'and', 'or', 'xor', 'shl', 'lshr', 'ashr'):
            while self.peek()[1] in ('nuw', 'nsw', 'exact'): self.next()
            self.expect('('); t1 = self.type(); a = self.value(t1); self.expect(','); t2 = self.type(); b = self.value(t2); self.expect(')')
            return ('bin', v, a, b, t1)
        if v == 'icmp':
            pred = self.next()[1]
            self.expect('('); t1 = self.type(); a = self.value(t1); self.expect(','); t2 = self.type(); b = self.value(t2); self.expect(')')
            return ('icmp', pred, a, b, t1)
        if v == '{' or v == '[' or v == '<':
            if v == '<' and self.peek()[1] == '{':
                self.next(); el = self._vlist('}'); self.expect('>')
                return ('agg', el)
            close = {'{': '}', '[': ']', '<': '>'}[v]
            return ('agg', self._vlist(close))
        raise Exception('value? %r %r' % ((k, v), self.t[max(0, self.i - 5):self.i + 5]))

    def _vlist(self, close):
        el = []
        if self.accept(close): return el
        while True:
            t = self.type(); el.append((t, self.value(t)))
            if self.accept(close): return el
            self.expect(',')

    def tv(self):
        """type, attrs, value"""
        t = self.type(); self.skip_attrs()
        return t, self.value(t)


TYWORD = re.compile(r'(i\d+|void|ptr|float|double|label|metadata|x86_fp80|opaque)$')
ORDERS = ('unordered', 'monotonic', 'acquire', 'release', 'acq_rel', 'seq_cst')


class Ins:
    __slots__ = ('op', 'dst', 'ty', 'a', 'b', 'c', 'x', 'order', 'order2', 'text', 'line', 'idx', 'vis')

    def __init__(self, op):
        self.op = op; self.dst = None; self.ty = None; self.a = self.b = self.c = None; self.x = None
        self.order = None; self.order2 = None; self.text = ''; self.idx = 0; self.vis = False

    def __repr__(self): return self.text[:140]


class Block:
    def __init__(self, name):
        self.name = name; self.ins = []; self.phis = []; self.succ = []


class Func:
    def __init__(self):
        self.name = None; self.params = []; self.ret = None; self.blocks = collections.OrderedDict(); self.entry = None
        self.struct = None


class Global:
    def __init__(self):
        self.name = None; self.ty = None; self.init = None; self.align = 0; self.tls = False; self.const = False
        self.external = False


class Module:
    def __init__(self, text):
        self.ty = Types(); self.globals = collections.OrderedDict(); self.funcs = collections.OrderedDict()
        self.decls = {}; self.ctors = []; self.aliases = {}
        lines = text.split('\n')
        i = 0; n = len(lines)
        fn_lines = []
        while i < n:
            ln = lines[i]
            if not ln or ln[0] == ';' or ln.startswith('source_filename') or ln.startswith('target ') or ln[0] in '!$' \
                    or ln.startswith('attributes '):
                i += 1; continue
            if ln[0] == '%':
                toks = tokenize(ln); p = P(toks, self)
                name = p.next()[1][1:].strip('"'); p.expect('='); p.expect('type')
                self.ty.named[name] = p.type()
            elif ln[0] == '@':
                self._global(ln)
            elif ln.startswith('define'):
                j = i
                while lines[j] != '}': j += 1
                fn_lines.append(lines[i:j]); i = j
            elif ln.startswith('declare'):
                m = re.search(r'@([-a-zA-Z$._0-9]+|"[^"]*")\s*\(', ln)
                self.decls[m.group(1).strip('"')] = ln
            i += 1
        for fl in fn_lines:
            self._func(fl)

    def _global(self, ln):
        toks = tokenize(ln); p = P(toks, self)
        g = Global(); g.name = p.next()[1][1:].strip('"'); p.expect('=')
        while True:
            k, v = p.peek()
            if v in ('global', 'constant'): break
            if v == 'alias':
                p.next(); t = p.type(); p.expect(','); t2 = p.type(); self.aliases[g.name] = p.value(t2); return
            if v == 'thread_local':
                g.tls = True; p.next()
                if p.peek()[1] == '(':
                    p.next(); p.next(); p.expect(')')
                continue
            if v == 'external' or v == 'extern_weak': g.external = True
            p.next()
        g.const = p.next()[1] == 'constant'
        g.ty = p.type()
        if not g.external and p.peek()[1] != ',' and not p.eof():
            g.init = p.value(g.ty)
        while not p.eof():
            k, v = p.next()
            if v == 'align': g.align = int(p.next()[1])
        self.globals[g.name] = g
        if g.name == 'llvm.global_ctors' and g.init and g.init[0] == 'agg':
            for t, e in g.init[1]:
                prio = e[1][0][1][1]; fn = e[1][1][1]
                if fn[0] == 'g': self.ctors.append((prio, fn[1]))
            self.ctors.sort(key=lambda x: x[0])

    def _func(self, lines):
        hdr = tokenize(lines[0]); p = P(hdr, self)
        p.expect('define')
        f = Func()
        p.skip_attrs()
        f.ret = p.type()
        f.name = p.next()[1][1:].strip('"')
        p.expect('(')
        if not p.accept(')'):
            while True:
                if p.peek()[0] == 'dots':
                    p.next()
                else:
                    t = p.type(); p.skip_attrs()
                    nm = p.next()[1][1:].strip('"')
                    f.params.append((nm, t))
                if p.accept(')'): break
                p.expect(',')
        cur = None
        pend = None
        for ln in lines[1:]:
            if not ln.strip(): continue
            if ln[0] not in ' \t':
                m = re.match(r'("[^"]*"|[-a-zA-Z$._0-9]+):', ln)
                if m:
                    cur = Block(m.group(1).strip('"')); f.blocks[cur.name] = cur
                    if f.entry is None: f.entry = cur.name
                    continue
            s = ln.strip()
            if s[0] == ';': continue
            if cur is None: raise Exception('instruction outside block (run instnamer): ' + s[:80])
            if pend is not None:
                pend += ' ' + s
                if s.endswith(']'):
                    s = pend; pend = None
                else: continue
            elif s.startswith('switch ') and not s.endswith(']'):
                pend = s; continue
            if re.match(r'(to label|cleanup|catch |filter )', s):
                cur.ins[-1] = self._ins(cur.ins[-1].text + ' ' + s, f)
                continue
            ins = self._ins(s, f)
            cur.ins.append(ins)
        for b in f.blocks.values():
            b.phis = [x for x in b.ins if x.op == 'phi']
            b.ins = [x for x in b.ins if x.op != 'phi']
            for k, x in enumerate(b.ins): x.idx = k
            t = b.ins[-1]
            if t.op == 'br': b.succ = [t.a] if t.b is None else [t.b, t.c]
            elif t.op == 'invoke': b.succ = [t.order, t.order2]
            elif t.op == 'switch': b.succ = [t.b] + [d for _, d in t.c]
            else: b.succ = []
        self.funcs[f.name] = f

    def _ins(self, s, f):
        toks = tokenize(s)
        # strip trailing metadata ", !tbaa !5"
        for j, (k, v) in enumerate(toks):
            if k == 'meta' and j > 0 and toks[j - 1][1] == ',':
                toks = toks[:j - 1]; break
        p = P(toks, self)
        dst = None
        if len(toks) > 1 and toks[1][1] == '=' and toks[0][0] == 'id':
            dst = toks[0][1][1:].strip('"'); p.i = 2
        op = p.next()[1]
        if op in ('tail', 'musttail', 'notail'): op = p.next()[1]
        I = Ins(op); I.dst = dst; I.text = s
        if op in ('add', 'sub', 'mul', 'and', 'or', 'xor', 'shl', 'lshr', 'ashr', 'udiv', 'urem', 'sdiv', 'srem'):
            while p.peek()[1] in ('nuw', 'nsw', 'exact'): p.next()
            I.ty = p.type(); I.a = p.value(I.ty); p.expect(','); I.b = p.value(I.ty)
        elif op == 'icmp':
            I.x = p.next()[1]; I.ty = p.type(); I.a = p.value(I.ty); p.expect(','); I.b = p.value(I.ty)
        elif op in ('zext', 'sext', 'trunc', 'bitcast', 'inttoptr', 'ptrtoint', 'addrspacecast'):
            t1 = p.type(); I.a = p.value(t1); p.expect('to'); I.ty = p.type(); I.x = t1
        elif op == 'freeze':
            I.ty = p.type(); I.a = p.value(I.ty)
        elif op == 'phi':
            I.ty = p.type(); I.a = []
            while True:
                p.expect('['); v = p.value(I.ty); p.expect(','); lb = p.next()[1][1:].strip('"'); p.expect(']')
                I.a.append((lb, v))
                if not p.accept(','): break
        elif op == 'select':
            ct = p.type(); I.a = p.value(ct); p.expect(','); I.ty = p.type(); I.b = p.value(I.ty); p.expect(',')
            p.type(); I.c = p.value(I.ty)
            if ct.k != 'int': raise Exception('vector select')
        elif op == 'getelementptr':
            p.accept('inbounds')
            I.ty = p.type(); p.expect(','); pt = p.type(); I.a = p.value(pt); I.b = []
            while p.accept(','):
                it = p.type(); I.b.append((it, p.value(it)))
        elif op == 'load':
            atomic = p.accept('atomic'); p.accept('volatile')
            I.ty = p.type(); p.expect(','); pt = p.type(); I.a = p.value(pt)
            if atomic:
                if p.peek()[1] == 'syncscope':
                    p.next(); p.expect('('); p.next(); p.expect(')')
                I.order = p.next()[1]
        elif op == 'store':
            atomic = p.accept('atomic'); p.accept('volatile')
            I.ty = p.type(); I.a = p.value(I.ty); p.expect(','); pt = p.type(); I.b = p.value(pt)
            if atomic:
                if p.peek()[1] == 'syncscope':
                    p.next(); p.expect('('); p.next(); p.expect(')')
                I.order = p.next()[1]
        elif op == 'cmpxchg':
            I.x = p.accept('weak'); p.accept('volatile')
            pt = p.type(); I.a = p.value(pt); p.expect(','); I.ty = p.type(); I.b = p.value(I.ty); p.expect(',')
            p.type(); I.c = p.value(I.ty)
            I.order = p.next()[1]; I.order2 = p.next()[1]
        elif op == 'atomicrmw':
            p.accept('volatile')
            I.x = p.next()[1]; pt = p.type(); I.a = p.value(pt); p.expect(','); I.ty = p.type(); I.b = p.value(I.ty)
            I.order = p.next()[1]
        elif op == 'fence':
            if p.peek()[1] == 'syncscope':
                p.next(); p.expect('('); p.next(); p.expect(')')
            I.order = p.next()[1]
        elif op == 'alloca':
            I.ty = p.type(); I.a = ('i', 1); I.x = 1
            while p.accept(','):
                if p.accept('align'): I.x = int(p.next()[1])
                else:
                    t = p.type(); I.a = p.value(t)
        elif op in ('call', 'invoke'):
            p.skip_attrs()
            I.ty = p.type(); I.a = p.value(PTR)   # callee
            p.expect('('); args = []
            if not p.accept(')'):
                while True:
                    t = p.type(); p.skip_attrs()
                    if t.k == 'metadata':
                        # skip metadata operand
                        while p.peek()[1] not in (',', ')'): p.next()
                        args.append((t, ('u',)))
                    else:
                        args.append((t, p.value(t)))
                    if p.accept(')'): break
                    p.expect(',')
            I.b = args
            p.skip_attrs()
            if op == 'invoke' and not p.eof():
                p.expect('to'); p.expect('label'); I.order = p.next()[1][1:].strip('"')
                p.expect('unwind'); p.expect('label'); I.order2 = p.next()[1][1:].strip('"')
        elif op == 'landingpad':
            I.ty = p.type(); I.a = []; I.x = False
            while not p.eof():
                v = p.next()[1]
                if v == 'cleanup': I.x = True
                elif v == 'catch':
                    t = p.type(); I.a.append(p.value(t))
                elif v == 'filter':
                    raise Exception('landingpad filter unsupported')
        elif op == 'resume':
            I.ty = p.type(); I.a = p.value(I.ty)
        elif op == 'extractvalue':
            I.ty = p.type(); I.a = p.value(I.ty); I.b = []
            while p.accept(','): I.b.append(int(p.next()[1]))
        elif op == 'insertvalue':
            I.ty = p.type(); I.a = p.value(I.ty); p.expect(','); t2 = p.type(); I.c = p.value(t2); I.x = t2; I.b = []
            while p.accept(','): I.b.append(int(p.next()[1]))
        elif op == 'br':
            if p.accept('label'):
                I.a = p.next()[1][1:].strip('"')
            else:
                t = p.type(); I.x = p.value(t); p.expect(','); p.expect('label'); I.b = p.next()[1][1:].strip('"')
                p.expect(','); p.expect('label'); I.c = p.next()[1][1:].strip('"')
        elif op == 'switch':
            I.ty = p.type(); I.a = p.value(I.ty); p.expect(','); p.expect('label'); I.b = p.next()[1][1:].strip('"')
            p.expect('['); I.c = []
            while not p.accept(']'):
                t = p.type(); v = p.value(t); p.expect(','); p.expect('label'); I.c.append((v, p.next()[1][1:].strip('"')))
        elif op == 'ret':
            I.ty = p.type()
            if I.ty.k != 'void': I.a = p.value(I.ty)
        elif op == 'unreachable':
            pass
        else:
            raise Exception('unsupported instruction: ' + s[:120])
        return I


# ------------------------------------------------------------------ CFG structure: loops, topological regions
class Loop:
    def __init__(self, header):
        self.header = header; self.body = set(); self.parent = None; self.children = []; self.items = None


def analyse(f):
    """compute loop forest and per-region topological item lists. Stored in f.struct"""
    if f.struct is not None: return f.struct
    blocks = f.blocks
    # DFS for back edges
    color = {}; back = []
    order = []
    stack = [(f.entry, iter(blocks[f.entry].succ))]
    color[f.entry] = 1
    while stack:
        b, it = stack[-1]
        adv = False
        for s in it:
            c = color.get(s, 0)
            if c == 0:
                color[s] = 1; stack.append((s, iter(blocks[s].succ))); adv = True; break
            elif c == 1:
                back.append((b, s))
        if not adv:
            color[b] = 2; order.append(b); stack.pop()
    reach = set(order)
    preds = collections.defaultdict(list)
    for b in reach:
        for s in blocks[b].succ: preds[s].append(b)
    loops = {}
    for latch, h in back:
        L = loops.get(h)
        if L is None: L = loops[h] = Loop(h)
        L.body.add(h)
        work = [latch]
        while work:
            x = work.pop()
            if x in L.body: continue
            L.body.add(x)
            work.extend(preds[x])
    ll = sorted(loops.values(), key=lambda L: len(L.body))
    for i, L in enumerate(ll):
        for M in ll[i + 1:]:
            if L.header in M.body and L is not M:
                if not L.body <= M.body: raise Exception('irreducible/overlapping loops in ' + f.name)
                L.parent = M; M.children.append(L); break
    backset = set(back)

    def region_items(members, header, children):
        """topological order of a region's items; members = blocks directly in region (not in child loops)"""
        child_of = {}
        for c in children:
            for b in c.body: child_of[b] = c
        # nodes: block name or Loop
        def node(b): return child_of.get(b, b)
        succs = collections.defaultdict(set)
        allb = set(members)
        for c in children: allb |= c.body
        for b in allb:
            nb = node(b)
            for s in blocks[b].succ:
                if s not in allb: continue
                if (b, s) in backset and (s == header or node(s) is nb): continue
                ns = node(s)
                if ns is not nb: succs[nb].add(ns)
        # DFS postorder from header node
        start = node(header)
        seen = {id(start) if isinstance(start, Loop) else start}
        out = []
        key = lambda x: id(x) if isinstance(x, Loop) else x
        st = [(start, iter(sorted(succs[start], key=lambda z: z.header if isinstance(z, Loop) else z)))]
        while st:
            nd, it = st[-1]
            adv = False
            for s in it:
                if key(s) not in seen:
                    seen.add(key(s)); st.append((s, iter(sorted(succs[s], key=lambda z: z.header if isinstance(z, Loop) else z)))); adv = True; break
            if not adv:
                out.append(nd); st.pop()
        out.reverse()
        return out

    def build(L):
        members = set(L.body)
        for c in L.children: members -= c.body
        L.items = region_items(members, L.header, L.children)
        for c in L.children: build(c)
    top = Loop(f.entry); top.body = set(reach); top.children = [L for L in ll if L.parent is None]
    build(top)
    f.struct = top
    return top
