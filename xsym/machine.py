"""xsym machine: guarded symbolic execution of LLVM IR with concrete cell addresses.

One Machine executes a scenario: global constructors, vp_setup(), then thread functions (sequentially or
in K rounds with symbolic context-switch windows), then vp_final().  All control flow is merged
(block guards), no path enumeration.  See DESIGN.md section 2.
"""
import bisect, re, sys, collections, os
from . import ir
from .term import *
from . import term as T

FUNC_BASE = 0x00100000
GLOB_BASE = 0x01000000
TLS_BASE = 0x02000000
TLS_STRIDE = 0x00100000
STACK_BASE = 0x20000000
STACK_STRIDE = 0x04000000
HEAP_BASE = 0x100000000
HEAP_SLOT = 1 << 20
EXC_TYPE_STD = 0x7770


_DEBUG = bool(os.environ.get('XSYM_DEBUG'))


class Unsupported(Exception):
    pass


class Alloc:
    __slots__ = ('id', 'base', 'size', 'kind', 'allocated', 'freed', 'site', 'tid', 'key', 'shared', 'arr')

    def __init__(self, base, size, kind, site='', tid=0):
        self.base = base; self.size = size; self.kind = kind; self.allocated = True; self.freed = False
        self.site = site; self.tid = tid; self.key = None; self.shared = kind != 'stack'; self.arr = None

    def live(self):
        if self.freed is False: return self.allocated
        return And(self.allocated, Not(self.freed))


class Obligation:
    __slots__ = ('kind', 'cond', 'where', 'nassume', 'tag', 'tid')

    def __init__(self, kind, cond, where, nassume, tag=None, tid=0):
        self.kind = kind; self.cond = cond; self.where = where; self.nassume = nassume; self.tag = tag; self.tid = tid


class Thread:
    def __init__(self, tid):
        self.tid = tid
        self.stack_next = STACK_BASE + tid * STACK_STRIDE
        self.reset_pass()

    def reset_pass(self):
        self.atexit = []          # (guard, fnaddr, obj)
        self.exc_obj = 0; self.exc_type = 0
        self.caught = []


class Edge:
    __slots__ = ('g', 'src', 'phi')

    def __init__(self, g, src, phi):
        self.g = g; self.src = src; self.phi = phi


class Frame:
    __slots__ = ('f', 'env', 'inc', 'rets', 'exc', 'g')


class Machine:
    def __init__(self, mod, nthreads=1, unwind=4, unwind_map=None, verbose=False, max_depth=400):
        self.mod = mod; self.ty = mod.ty
        self.mem = {}
        self.allocs = []          # sorted by base (non-heap)
        self.alloc_bases = []
        self.heap = []
        self.obligations = []
        self.assumptions = []
        self.gassumptions = []    # hold globally (input ranges, schedule shape)
        self.covers = {}
        self.observed = {}        # slot -> list of (guard, value)
        self.nondets = {}         # id -> term
        self.ranges = {}
        self.unwound = []         # (guard, where)
        self.unwind = unwind; self.unwind_map = unwind_map or {}; self._unwind_cache = {}
        self.verbose = verbose
        self.max_depth = max_depth
        self.threads = [Thread(i) for i in range(nthreads + 1)]
        self.cur = self.threads[0]
        self.keypath = []
        self.alloc_by_key = {}
        self.hist = {}
        self.win = None           # None = sequential; else function key -> Bool term
        self.before = None        # key -> Bool term: executed in an earlier round
        self.upto = None          # key -> Bool term: position lies before the end of the current window
        self.stats = collections.Counter()
        self.fn_addr = {}; self.addr_fn = {}
        self.glob_addr = {}
        self.tls_off = {}
        self.depth = 0
        self.callstack = []
        self.funcs_encoded = collections.Counter()
        self.typeids = {}
        self.uninit_zero = False
        self.fresh = 0
        self.events = []          # (tid, key, kind, guard, info) for schedule/oracles
        self.rdtsc = []
        self.trace_hook = None
        self.fixed = {}
        self.optimes = {}; self.pass_no = 0
        self.loop_hot = collections.Counter()
        self.unsupported = []
        self.tolerant = False
        self.fixed_named = {}
        self.race = None
        self.max_recursion = 4
        self.path_kill = not os.environ.get('XSYM_NO_PATHKILL'); self.kill = None; self.win_hi = None
        self.private_stack = not os.environ.get('XSYM_NO_PRIVSTACK'); self.pass_written = set()
        self.do_restrict = False   # guard-context simplification of loaded values (enabled in window passes)
        self.hard_loop_cap = 5000
        self.pruner = None; self.prune_above = 1 << 30; self.prune_loops = False; self.sym_loop_cap = 100; self.prune_iter = False
        self._layout()

    # ------------------------------------------------------------ layout
    def _layout(self):
        m = self.mod
        a = FUNC_BASE
        for n in list(m.funcs) + sorted(m.decls):
            if n not in self.fn_addr:
                self.fn_addr[n] = a; self.addr_fn[a] = n; a += 16
        g = GLOB_BASE; toff = 0
        for gl in m.globals.values():
            if gl.name.startswith('llvm.'): continue
            if gl.ty.k == 'func': continue
            sz, al = self.ty.size_align(gl.ty)
            al = max(al, gl.align or 1, 8); sz = max(sz, 8)
            if gl.tls:
                toff = (toff + al - 1) // al * al
                self.tls_off[gl.name] = toff; toff += (sz + 7) // 8 * 8
            else:
                g = (g + al - 1) // al * al
                self.glob_addr[gl.name] = g
                self._add_alloc(Alloc(g, sz, 'global', gl.name))
                g += (sz + 63) // 64 * 64 + 64
        self.tls_size = max(toff, 8)
        if self.tls_size > TLS_STRIDE: raise Unsupported('TLS too large')
        for t in self.threads:
            self._add_alloc(Alloc(TLS_BASE + t.tid * TLS_STRIDE, self.tls_size, 'tls', 'tls%d' % t.tid, t.tid))
        # initialise
        for gl in m.globals.values():
            if gl.name.startswith('llvm.') or gl.ty.k == 'func': continue
            if gl.tls:
                for t in self.threads:
                    self.cur = t
                    self._init_global(TLS_BASE + t.tid * TLS_STRIDE + self.tls_off[gl.name], gl)
            else:
                self._init_global(self.glob_addr[gl.name], gl)
        self.cur = self.threads[0]

    def _init_global(self, addr, gl):
        if gl.init is None:
            return   # external: leave uninitialised (reads give fresh symbols)
        self._init_val(addr, gl.ty, gl.init)

    def _init_val(self, addr, ty, v):
        ty = self.ty.resolve(ty)
        k = v[0]
        if k in ('z', 'u'):
            sz = self.ty.size(ty)
            self._fill(addr, sz, 0)
            return
        if ty.k in ('int', 'ptr'):
            val = self.const(v, ty)
            self.wr(addr, self.ty.size(ty), self._tobv(val, ty), True)
        elif ty.k == 'array':
            if k == 's':
                s = v[1]
                bs = _cstring(s)
                for i, b in enumerate(bs): self.wr(addr + i, 1, b, True)
                return
            es = self.ty.size(ty.elem)
            for i, (t, e) in enumerate(v[1]): self._init_val(addr + i * es, ty.elem, e)
        elif ty.k == 'struct':
            for i, (t, e) in enumerate(v[1]):
                off, ft = self.ty.field_off(ty, i)
                self._init_val(addr + off, ft, e)
        elif ty.k == 'float':
            self._fill(addr, self.ty.size(ty), 0)
        else:
            raise Unsupported('global init of ' + ty.k)

    def _fill(self, addr, sz, byte):
        a = addr
        end = addr + sz
        while a < end:
            if a % 8 == 0 and a + 8 <= end:
                self.mem[a] = byte * 0x0101010101010101; a += 8
            else:
                self.wr(a, 1, byte, True); a += 1

    def _add_alloc(self, al):
        i = bisect.bisect(self.alloc_bases, al.base)
        self.alloc_bases.insert(i, al.base); self.allocs.insert(i, al)
        al.id = len(self.allocs) + len(self.heap)

    def alloc_of(self, addr):
        if addr >= HEAP_BASE:
            i = (addr - HEAP_BASE) >> 20
            if i < len(self.heap):
                al = self.heap[i]
                if al.base <= addr < al.base + al.size or (al.size == 0 and addr == al.base): return al
            return None
        i = bisect.bisect(self.alloc_bases, addr) - 1
        if i >= 0:
            al = self.allocs[i]
            if addr < al.base + al.size: return al
        return None

    # ------------------------------------------------------------ memory words
    def word(self, w0):
        v = self.mem.get(w0)
        if v is None:
            if self.uninit_zero: v = 0
            else: v = var('uninit_%x' % w0, 64)
            self.mem[w0] = v
        return v

    def rd(self, a, n):
        """read n bytes (n<=16) at concrete address a -> value of width 8n"""
        w0 = a & ~7; off = a - w0
        if off + n <= 8:
            v = self.word(w0)
            if n == 8: return v
            return Extract(off * 8 + n * 8 - 1, off * 8, v, 64)
        # straddle: assemble byte ranges
        res = None; rw = 0
        pos = a; end = a + n
        while pos < end:
            w0 = pos & ~7; off = pos - w0; cnt = min(8 - off, end - pos)
            part = Extract(off * 8 + cnt * 8 - 1, off * 8, self.word(w0), 64)
            if res is None: res, rw = part, cnt * 8
            else:
                res = Concat(part, cnt * 8, res, rw); rw += cnt * 8
            pos += cnt
        return res

    def wr(self, a, n, val, g):
        """write n bytes of val at concrete a under guard g"""
        if g is False: return
        w0 = a & ~7; off = a - w0
        if off + n <= 8:
            if n == 8:
                new = val
            else:
                old = self.word(w0)
                lo = off * 8; hi = lo + n * 8
                new = val
                if lo > 0: new = Concat(new, n * 8, Extract(lo - 1, 0, old, 64), lo)
                if hi < 64: new = Concat(Extract(63, hi, old, 64), 64 - hi, new, hi)
            if g is True: self.mem[w0] = new
            else: self.mem[w0] = Ite(g, new, self.word(w0), 64)
            return
        pos = a; end = a + n; sh = 0
        while pos < end:
            w0 = pos & ~7; off = pos - w0; cnt = min(8 - off, end - pos)
            self.wr(pos, cnt, Extract(sh + cnt * 8 - 1, sh, val, n * 8), g)
            pos += cnt; sh += cnt * 8

    # ------------------------------------------------------------ obligations
    def oblige(self, kind, cond, where, tag=None):
        if cond is False: return
        if _DEBUG: where = where + ' @' + repr(tuple(self.keypath))
        self.obligations.append(Obligation(kind, cond, where, len(self.assumptions), tag, self.cur.tid))
        if cond is True and self.verbose:
            print('  definite violation:', kind, where)

    def defer_unsupported(self, g, msg):
        """an operation the engine cannot encode was met under guard g: if g is feasible the scenario is inconclusive
        (decided by the solver later); garbage paths of window passes have infeasible guards."""
        if g is True: raise Unsupported(msg)
        if g is False: return
        self.unsupported.append((g, msg))
        self.stats['deferred_unsupported'] += 1

    def assume(self, c):
        if c is True: return
        self.assumptions.append(c)

    def where(self):
        return ' <- '.join(reversed(self.callstack[-4:]))

    # ------------------------------------------------------------ checked access
    def check(self, addr, n, g, what):
        """returns True if access at concrete addr may proceed"""
        al = self.alloc_of(addr)
        if al is None or addr + n > al.base + al.size:
            self.oblige('wild-' + what, g, '%s at %#x (%s)' % (what, addr, self.where()))
            return None
        lv = al.live()
        if lv is not True:
            self.oblige('use-after-free', And(g, Not(lv)), '%s of freed %s+%d (%s)' % (what, al.site, addr - al.base, self.where()), tag=al)
        return al

    def cands(self, p, g, what):
        """candidate concrete addresses of pointer value p: list of (addr, cond)"""
        if not isinstance(p, Term): return [(p, True)]
        vs = get_vs(p)
        if vs is None:
            pv = possible_values(p, 64, 2000, self.ranges)
            if pv is None and self.tolerant:
                self.stats['tolerated_addr'] += 1
                return []
            if pv is None:
                pvs = T.get_pvs(p)
                if pvs is not None and pvs[0]:
                    # some leaves of the pointer are not enumerable (uninitialised memory, unconstrained input):
                    # the enumerable part is explored, the rest must be unreachable (else the scenario is inconclusive)
                    if _DEBUG and And(g, pvs[1]) is not False:
                        print('PARTIAL pointer at', self.where(), 'keys', [hex(k) for k in pvs[0]], 'term', T.show(p, 9)[:1500])
                    self.defer_unsupported(And(g, pvs[1]), '%s through a pointer with non-enumerable values (%s)' % (what, self.where()))
                    return sorted(pvs[0].items())
            if pv is None:
                if os.environ.get('XSYM_DEBUG'):
                    def go(x, d=0):
                        if not isinstance(x, Term): return
                        pv = possible_values(x, x.w if x.w else 1, 600, self.ranges); vs = get_vs(x)
                        print(' ' * d, x.op, x.w, None if pv is None else len(pv), None if vs is None else len(vs), T.show(x, 2)[:120], sorted(vs)[:60] if vs else '')
                        if vs is None and d < 10:
                            for a in x.args: go(a, d + 1)
                    go(p)
                self.defer_unsupported(g, 'symbolic address not enumerable: %s in %s / %s' % (T.show(p, 7)[:400], self.where(), what))
                return []
            self.stats['enum_addr'] += 1
            cs = [(a, Eq(p, a, 64)) for a in sorted(pv)]
        else:
            cs = sorted(vs.items())
        if len(cs) > self.prune_above and self.pruner is not None:
            self.pruner.sync(self.assumptions)
            cs = [(a, c) for a, c in cs if self.pruner.feasible(And(g, c))]
        return cs

    def load(self, p, n, g, what='load'):
        if self.do_restrict and isinstance(p, Term): p = T.restrict(p, g)
        v = self._load(p, n, g, what)
        if self.do_restrict: v = T.restrict(v, g)
        return v

    def _load(self, p, n, g, what='load'):
        cs = self.cands(p, g, what)
        if len(cs) == 1 and cs[0][1] is True:
            if self.check(cs[0][0], n, g, what) is None: return 0
            return self.rd(cs[0][0], n)
        res = 0; first = True
        for a, c in reversed(cs):
            gc = And(g, c)
            if gc is False: continue
            if self.check(a, n, gc, what) is None: continue
            v = self.rd(a, n)
            if first: res = v; first = False
            else: res = Ite(c, v, res, n * 8)
        return res

    def store(self, p, n, val, g, what='store'):
        if g is False: return
        if self.do_restrict:
            if isinstance(p, Term): p = T.restrict(p, g)
            if isinstance(val, Term): val = T.restrict(val, g)
        cs = self.cands(p, g, what)
        if self.win is not None and self.private_stack:
            lo = STACK_BASE + self.cur.tid * STACK_STRIDE
            if len(cs) == 1 and cs[0][1] is True and lo <= cs[0][0] < lo + STACK_STRIDE:
                a = cs[0][0]
                al = self.alloc_of(a)
                if al is not None and not al.shared and a + n <= al.base + al.size:
                    # first write of this pass to a private stack word: what it held before belongs to the previous pass
                    w0 = a & ~7
                    if w0 not in self.pass_written and (a + n - 1) & ~7 == w0:
                        self.pass_written.add(w0)
                        self.wr(a, n, val, True)
                        return
            elif n == 8:
                self._escape(val)
        for a, c in cs:
            gc = And(g, c)
            if gc is False: continue
            if self.check(a, n, gc, what) is None: continue
            self.wr(a, n, val, gc)

    # ------------------------------------------------------------ allocation
    def malloc(self, size, align, g, kind='heap', zero=False):
        key = tuple(self.keypath)
        al = self.alloc_by_key.get(key)
        if al is None:
            if isinstance(size, Term):
                pv = possible_values(size, 64, 64, self.ranges)
                if pv is None:
                    pvs = T.get_pvs(size)
                    if pvs is not None and pvs[0]:
                        if not self.tolerant: self.defer_unsupported(And(g, pvs[1]), 'allocation size with non-enumerable values in %s' % self.where())
                        pv = list(pvs[0])
                    else:
                        if not self.tolerant: self.defer_unsupported(g, 'symbolic allocation size %s in %s' % (T.show(size, 6)[:300], self.where()))
                        pv = [256]
                csize = max(pv)
            else: csize = size
            if csize > HEAP_SLOT * 8:
                if not isinstance(size, Term) and g is True: raise Unsupported('allocation too large %d' % csize)
                # inside a window pass the size may be garbage of a not-yet-executed path: flag it if it is real
                self.oblige('huge-allocation', And(g, Cmp('ult', HEAP_SLOT * 8, size, 64)), 'allocation of more than %d bytes (%s)' % (HEAP_SLOT * 8, self.where()))
                csize = max([v for v in (pv if isinstance(size, Term) else []) if v <= HEAP_SLOT * 8] or [16])
            nsl = max(1, (csize + HEAP_SLOT - 1) // HEAP_SLOT)
            if align > HEAP_SLOT: raise Unsupported('alignment')
            base = HEAP_BASE + len(self.heap) * HEAP_SLOT
            al = Alloc(base, csize, kind, self.where(), self.cur.tid)
            al.id = 100000 + len(self.heap)
            al.allocated = False
            al.key = key
            for _ in range(nsl): self.heap.append(al)
            self.alloc_by_key[key] = al
            self.stats['heap_allocs'] += 1
        al.allocated = Or(al.allocated, g)
        if zero:
            for off in range(0, al.size, 8): self.wr(al.base + off, 8, 0, g)
        return al.base

    def free(self, p, g, what='delete'):
        if g is False: return
        for a, c in self.cands(p, g, what):
            gc = And(g, c)
            if gc is False or a == 0: continue
            al = self.alloc_of(a)
            if al is None or al.base != a or al.kind not in ('heap', 'exc'):
                self.oblige('invalid-free', gc, '%s of %#x (%s)' % (what, a, self.where()))
                continue
            lv = al.live()
            if lv is not True:
                self.oblige('double-free', And(gc, Not(lv)), '%s of %s (%s)' % (what, al.site, self.where()), tag=al)
            al.freed = Or(al.freed, gc)

    def alloca(self, size, align):
        key = tuple(self.keypath)
        al = self.alloc_by_key.get(key)
        if al is None:
            t = self.cur
            align = max(align, 8)
            a = (t.stack_next + align - 1) // align * align
            size = max(size, 1)
            t.stack_next = a + (size + 15) // 16 * 16 + 16
            if t.stack_next > STACK_BASE + (t.tid + 1) * STACK_STRIDE: raise Unsupported('stack exhausted')
            al = Alloc(a, size, 'stack', 'alloca@' + (self.callstack[-1] if self.callstack else ''), t.tid)
            self._add_alloc(al)
            self.alloc_by_key[key] = al
        return al.base

    # ------------------------------------------------------------ constants / operands
    def gaddr(self, name):
        a = self.glob_addr.get(name)
        if a is not None: return a
        a = self.fn_addr.get(name)
        if a is not None: return a
        o = self.tls_off.get(name)
        if o is not None: return TLS_BASE + self.cur.tid * TLS_STRIDE + o
        al = self.mod.aliases.get(name)
        if al is not None: return self.const(al, ir.PTR)
        g = self.mod.globals.get(name)
        if g is not None and g.ty.k == 'func':
            a = self.fn_addr.get(name)
        # unknown external symbol: give it a function-like address
        a = FUNC_BASE + 0x80000 + (len(self.fn_addr) * 16)
        self.fn_addr[name] = a; self.addr_fn[a] = name
        return a

    def _tobv(self, v, ty):
        if ty.k == 'int' and ty.bits == 1:
            return BoolToBV(v, 8)
        return v

    def width(self, ty):
        ty = self.ty.resolve(ty)
        if ty.k == 'int': return ty.bits
        if ty.k == 'ptr': return 64
        raise Unsupported('width of ' + ty.k)

    def zero_of(self, ty):
        ty = self.ty.resolve(ty)
        if ty.k == 'int': return False if ty.bits == 1 else 0
        if ty.k in ('ptr', 'float'): return 0
        if ty.k == 'struct': return tuple(self.zero_of(e) for e in ty.elems)
        if ty.k == 'array': return tuple(self.zero_of(ty.elem) for _ in range(ty.n))
        if ty.k in ('void', 'metadata', 'label', 'func'): return None
        raise Unsupported('zero of ' + ty.k)

    def const(self, v, ty, env=None):
        k = v[0]
        if k == 'l': return env[v[1]]
        if k == 'i':
            rt = ty if ty.k != 'named' else self.ty.resolve(ty)
            if rt.k == 'int' and rt.bits == 1: return bool(v[1])
            return v[1]
        if k == 'g': return self.gaddr(v[1])
        if k in ('u', 'z'): return self.zero_of(ty)
        if k == 'gep':
            return self.gep(v[1], self.const(v[2], ir.PTR, env), [(t, self.const(x, t, env)) for t, x in v[3]])
        if k == 'cast':
            op, x, t1, t2 = v[1], v[2], v[3], v[4]
            return self.cast(op, self.const(x, t1, env), t1, t2)
        if k == 'bin':
            return self.binop(v[1], self.const(v[2], v[4], env), self.const(v[3], v[4], env), v[4])
        if k == 'icmp':
            return self.icmp(v[1], self.const(v[2], v[4], env), self.const(v[3], v[4], env), v[4])
        if k == 'agg':
            return tuple(self.const(x, t, env) for t, x in v[1])
        if k == 'f':
            return 0
        if k == 'asm':
            return v
        raise Unsupported('const ' + repr(v)[:80])

    def gep(self, bt, base, idx):
        t = bt; off = 0; sym = None; first = True
        for it, iv in idx:
            if first:
                sz = self.ty.size(t); first = False
            else:
                rt = self.ty.resolve(t)
                if rt.k == 'struct':
                    if isinstance(iv, Term): raise Unsupported('symbolic struct index')
                    o, t = self.ty.field_off(rt, iv)
                    off += o; continue
                elif rt.k in ('array', 'vector'):
                    t = rt.elem; sz = self.ty.size(t)
                else:
                    raise Unsupported('gep into ' + rt.k)
            iw = self.width(it)
            if isinstance(iv, Term):
                x = SExt(iv, iw, 64) if iw < 64 else iv
                x = BinOp('mul', x, sz, 64)
                sym = x if sym is None else BinOp('add', sym, x, 64)
            else:
                off += to_signed(iv, iw) * sz
        r = BinOp('add', base, off & mask(64), 64)
        if sym is not None: r = BinOp('add', r, sym, 64)
        return r

    def cast(self, op, x, t1, t2):
        if op in ('bitcast', 'inttoptr', 'ptrtoint', 'addrspacecast'):
            r1 = self.ty.resolve(t1); r2 = self.ty.resolve(t2)
            if r1.k in ('vector', 'float') or r2.k in ('vector', 'float'):
                if r1.k == 'float' or r2.k == 'float': return x
                raise Unsupported('vector cast')
            w1 = self.width(r1); w2 = self.width(r2)
            if w1 == w2: return x
            if w2 < w1: return Trunc(x, w1, w2)
            return ZExt(x, w1, w2)
        w1 = self.width(t1); w2 = self.width(t2)
        if op == 'zext':
            if w1 == 1: return BoolToBV(x, w2)
            return ZExt(x, w1, w2)
        if op == 'sext':
            if w1 == 1: return Ite(x, mask(w2), 0, w2)
            return SExt(x, w1, w2)
        if op == 'trunc':
            if w2 == 1: return BVToBool(Trunc(x, w1, 1), 1)
            return Trunc(x, w1, w2)
        raise Unsupported(op)

    def binop(self, op, a, b, ty):
        w = self.width(ty)
        if w == 1:
            if op == 'and': return And(a, b)
            if op == 'or': return Or(a, b)
            if op in ('xor', 'add', 'sub'): return Not(BoolEq(a, b))
            raise Unsupported('i1 ' + op)
        return BinOp(op, a, b, w)

    def icmp(self, pred, a, b, ty):
        w = self.width(ty)
        if w == 1:
            if pred == 'eq': return BoolEq(a, b)
            if pred == 'ne': return Not(BoolEq(a, b))
            a = BoolToBV(a, 8); b = BoolToBV(b, 8); w = 8
        if pred == 'eq': return Cmp('eq', a, b, w)
        if pred == 'ne': return Not(Cmp('eq', a, b, w))
        if pred == 'ult': return Cmp('ult', a, b, w)
        if pred == 'ule': return Cmp('ule', a, b, w)
        if pred == 'ugt': return Cmp('ult', b, a, w)
        if pred == 'uge': return Cmp('ule', b, a, w)
        if pred == 'slt': return Cmp('slt', a, b, w)
        if pred == 'sle': return Cmp('sle', a, b, w)
        if pred == 'sgt': return Cmp('slt', b, a, w)
        if pred == 'sge': return Cmp('sle', b, a, w)
        raise Unsupported(pred)

    def merge(self, c, a, b, ty):
        """ite over possibly aggregate values"""
        if c is True: return a
        if c is False: return b
        if isinstance(a, tuple):
            rt = self.ty.resolve(ty)
            if rt.k == 'struct':
                return tuple(self.merge(c, x, y, t) for x, y, t in zip(a, b, rt.elems))
            return tuple(self.merge(c, x, y, rt.elem) for x, y in zip(a, b))
        rt = self.ty.resolve(ty)
        if rt.k == 'int': return Ite(c, a, b, 0 if rt.bits == 1 else rt.bits)
        if rt.k in ('void', 'metadata', 'label'): return None
        return Ite(c, a, b, 64)

    # ------------------------------------------------------------ typed memory access
    def load_ty(self, p, ty, g):
        rt = self.ty.resolve(ty)
        if rt.k == 'int':
            if rt.bits == 1:
                return BVToBool(Trunc(self.load(p, 1, g), 8, 1), 1)
            n = self.ty.size(rt)
            v = self.load(p, n, g)
            if rt.bits != n * 8: v = Trunc(v, n * 8, rt.bits)
            return v
        if rt.k == 'ptr': return self.load(p, 8, g)
        if rt.k == 'float': return self.load(p, self.ty.size(rt), g)
        if rt.k == 'struct':
            out = []
            for i, e in enumerate(rt.elems):
                off, ft = self.ty.field_off(rt, i)
                out.append(self.load_ty(BinOp('add', p, off, 64), ft, g))
            return tuple(out)
        if rt.k == 'array':
            es = self.ty.size(rt.elem)
            return tuple(self.load_ty(BinOp('add', p, i * es, 64), rt.elem, g) for i in range(rt.n))
        raise Unsupported('load of ' + rt.k)

    def store_ty(self, p, ty, v, g):
        rt = self.ty.resolve(ty)
        if rt.k == 'int':
            n = self.ty.size(rt)
            if rt.bits == 1: v = BoolToBV(v, 8)
            elif rt.bits != n * 8: v = ZExt(v, rt.bits, n * 8)
            self.store(p, n, v, g); return
        if rt.k == 'ptr': self.store(p, 8, v, g); return
        if rt.k == 'float': self.store(p, self.ty.size(rt), v, g); return
        if rt.k == 'struct':
            for i, e in enumerate(rt.elems):
                off, ft = self.ty.field_off(rt, i)
                self.store_ty(BinOp('add', p, off, 64), ft, v[i], g)
            return
        if rt.k == 'array':
            es = self.ty.size(rt.elem)
            for i in range(rt.n): self.store_ty(BinOp('add', p, i * es, 64), rt.elem, v[i], g)
            return
        raise Unsupported('store of ' + rt.k)

    # ------------------------------------------------------------ visible operation windowing
    def _private(self, p):
        """the access touches only stack memory of the current thread whose address never left the thread: such
        accesses cannot be observed by other threads and are not context-switch points"""
        if self.win is None or not self.private_stack: return False
        lo = STACK_BASE + self.cur.tid * STACK_STRIDE; hi = lo + STACK_STRIDE
        if not isinstance(p, Term):
            if not (lo <= p < hi): return False
            al = self.alloc_of(p)
            return al is not None and not al.shared
        vs = p.vs if p.vs is not False else get_vs(p)
        if vs is None: return False
        for a in vs:
            if not (lo <= a < hi): return False
            al = self.alloc_of(a)
            if al is None or al.shared: return False
        return True

    def _escape(self, val):
        """a value is stored outside the current thread's private stack: stack objects it points to become shared"""
        if isinstance(val, Term):
            if val.w != 64: return
            vs = val.vs if val.vs is not False else get_vs(val)
            if vs is None: return
            vals = vs
        else:
            vals = (val,)
        for a in vals:
            if STACK_BASE <= a < HEAP_BASE:
                al = self.alloc_of(a)
                if al is not None and al.kind == 'stack' and not al.shared:
                    al.shared = True; self.stats['escaped_stack_objects'] += 1

    def _align(self, guards):
        """join of paths that passed different numbers of visible operations: every path continues only if the round's
        window reaches beyond ALL of them (the next visible operation lies behind every one of them anyway), which
        makes the guards factor at the join"""
        hi = self.win_hi
        if not isinstance(hi, Term): return guards
        los = []
        for g in guards:
            lo = 0
            if isinstance(g, Term):
                sm = T._summary(g)
                if sm is not None:
                    o = sm[1].get(hi.id)
                    if o is not None: lo = o[0]
            los.append(lo)
        m = max(los)
        if m == 0 or min(los) == m: return guards
        lit = Cmp('ule', m, hi, hi.w)
        return [g if lo == m else And(g, lit) for g, lo in zip(guards, los)]

    def vis(self, g, sub=0):
        """effective guard and history key of the visible operation at the current key path"""
        if self.win is None: return g, None
        key = tuple(self.keypath) if sub == 0 else tuple(self.keypath) + (('s', sub),)
        if self.path_kill: self.kill = self.upto(key)
        return And(g, self.win(key)), key

    def keep(self, key, eg, val, ty):
        """result of a visible operation across passes: if the operation already executed in an earlier round keep
        that result, otherwise take this pass's value (meaningful iff the operation lies before this round's end;
        everything depending on a not-yet-executed operation lies beyond the window and has no effect)"""
        if key is None: return val
        prev = self.hist.get(key)
        if prev is None:
            r = val
        else:
            r = self.merge(self.before(key), prev, val, ty)
        self.hist[key] = r
        return r

    # ------------------------------------------------------------ function execution
    def call_function(self, name, args, g):
        """returns (normal_guard, retval, exc_guard)"""
        f = self.mod.funcs.get(name)
        if f is None:
            return self.builtin(name, args, g, None)
        if self.depth > self.max_depth: raise Unsupported('call depth exceeded at ' + name)
        if self.callstack.count(name) >= self.max_recursion:
            self.unwound.append((g if self.win is None else And(g, self.upto(tuple(self.keypath))), 'recursion ' + name)); return False, self.zero_of(f.ret) if f.ret.k != 'void' else None, False
        self.funcs_encoded[name] += 1
        self.depth += 1; self.callstack.append(name)
        try:
            return self._run(f, args, g)
        finally:
            self.depth -= 1; self.callstack.pop()

    def _run(self, f, args, g):
        top = ir.analyse(f)
        fr = Frame(); fr.f = f; fr.env = env = {}; fr.inc = collections.defaultdict(list); fr.rets = []; fr.exc = False
        for (pn, pt), a in zip(f.params, args): env[pn] = a
        fr.inc[f.entry].append(Edge(g, None, None))
        self._region(fr, top)
        # merge returns
        ng = False; rv = None
        if len(fr.rets) > 1 and self.win_hi is not None:
            fr.rets = list(zip(self._align([r[0] for r in fr.rets]), [r[1] for r in fr.rets]))
        for rg, v in fr.rets:
            if ng is False: rv = v
            elif v is not None: rv = self.merge(rg, v, rv, f.ret)
            ng = Or(ng, rg)
        if rv is None and f.ret.k != 'void': rv = self.zero_of(f.ret)
        return ng, rv, fr.exc

    def _region(self, fr, L):
        kp = self.keypath
        for n, item in enumerate(L.items):
            kp.append(n)
            if isinstance(item, ir.Loop):
                self._loop(fr, item)
            else:
                edges = fr.inc.pop(item, None)
                if edges: self._block(fr, fr.f.blocks[item], edges)
            kp.pop()

    def _loop(self, fr, L):
        U = self._unwind_for(fr.f.name)
        if isinstance(U, dict): U = U.get(L.header, self.unwind)
        kp = self.keypath
        k = 0; ksym = 0; prev = None
        while True:
            edges = fr.inc.get(L.header)
            if not edges: break
            g = OrL(e.g for e in edges)
            if g is False:
                fr.inc.pop(L.header); break
            # iterations whose continuation was decided concretely are simply executed; only iterations
            # entered under a new symbolic condition count against the unwinding bound U
            if k > 0 and g is not prev:
                if self.prune_iter and self.pruner is not None and g is not True:
                    # another iteration under a new symbolic condition: ask the solver whether any execution gets here
                    # (retry loops of lock-free code only repeat after interference, which the merged paths cannot see)
                    self.pruner.sync(self.assumptions)
                    if not self.pruner.feasible(g):
                        fr.inc.pop(L.header); self.stats['loops_cut_infeasible'] += 1
                        break
                ksym += 1
            if ksym > U or k >= (self.hard_loop_cap if g is True else self.sym_loop_cap):
                # the cut removes every later iteration from THIS pass: that matters whenever the cut point lies before
                # the end of the current window (also when it lies before its start: later iterations may be inside)
                kp.append(k); eg = g if self.win is None else And(g, self.upto(tuple(kp))); kp.pop()
                self.unwound.append((eg, '%s:%s (U=%d, tid %d)%s' % (fr.f.name[:80], L.header, U, self.cur.tid, '' if ksym > U else ' [iteration cap %d]' % k)))
                fr.inc.pop(L.header)
                self.stats['unwound'] += 1
                break
            if k in (8, 32, 128, 512, 2048) and g is not True and self.pruner is not None and self.prune_loops:
                # a long 'concrete' loop under a symbolic guard: the guard may be semantically false (e.g. i != n
                # after all values of n are exhausted); ask the solver once in a while
                self.pruner.sync(self.assumptions)
                if not self.pruner.feasible(g):
                    fr.inc.pop(L.header); self.stats['loops_cut_infeasible'] += 1
                    break
            prev = g
            kp.append(k)
            self._region(fr, L)
            kp.pop()
            k += 1
        self.stats['loop_iters'] += k
        if k > 50: self.loop_hot[(fr.f.name[-60:], L.header, self.cur.tid, self.pass_no)] += k

    def _unwind_for(self, fname):
        """per-function loop bound: exact mangled name, else the first '*substring*' pattern contained in the name"""
        c = self._unwind_cache.get(fname)
        if c is None:
            c = self.unwind_map.get(fname)
            if c is None:
                for k, v in self.unwind_map.items():
                    if k.startswith('*') and k.strip('*') in fname: c = v; break
            if c is None: c = self.unwind
            self._unwind_cache[fname] = c
        return c

    def _edge(self, fr, src, dstname, g):
        if g is False: return
        dst = fr.f.blocks[dstname]
        phi = None
        if dst.phis:
            phi = {}
            env = fr.env
            for p in dst.phis:
                for lb, v in p.a:
                    if lb == src.name:
                        phi[p.dst] = self.const(v, p.ty, env); break
                else:
                    raise Unsupported('phi without incoming for ' + src.name)
        fr.inc[dstname].append(Edge(g, src.name, phi))

    def _block(self, fr, b, edges):
        env = fr.env
        if len(edges) > 1 and self.win_hi is not None:
            for e, ng in zip(edges, self._align([e.g for e in edges])): e.g = ng
        g = OrL(e.g for e in edges)
        if g is False: return
        for p in b.phis:
            es = [e for e in edges if e.g is not False]
            v = es[-1].phi[p.dst]
            for e in reversed(es[:-1]):
                v = self.merge(e.g, e.phi[p.dst], v, p.ty)
            env[p.dst] = v
        self.stats['blocks'] += 1
        kp = self.keypath
        const = self.const
        for I in b.ins:
            op = I.op
            self.stats['ins'] += 1
            if op in _BIN:
                env[I.dst] = self.binop(op, const(I.a, I.ty, env), const(I.b, I.ty, env), I.ty)
            elif op == 'icmp':
                env[I.dst] = self.icmp(I.x, const(I.a, I.ty, env), const(I.b, I.ty, env), I.ty)
            elif op == 'getelementptr':
                env[I.dst] = self.gep(I.ty, const(I.a, ir.PTR, env), [(t, const(x, t, env)) for t, x in I.b])
            elif op in _CAST:
                env[I.dst] = self.cast(op, const(I.a, I.x, env), I.x, I.ty)
            elif op == 'load':
                kp.append(I.idx)
                p = const(I.a, ir.PTR, env)
                if self._private(p): eg, key = g, None
                else: eg, key = self.vis(g)
                v = self.load_ty(p, I.ty, eg)
                self.event('load', eg, key, I, p)
                env[I.dst] = self.keep(key, eg, v, I.ty)
                kp.pop()
                if self.kill is not None:
                    g = And(g, self.kill); self.kill = None
                    if g is False: break
            elif op == 'store':
                kp.append(I.idx)
                p = const(I.b, ir.PTR, env)
                if self._private(p): eg, key = g, None
                else: eg, key = self.vis(g)
                self.event('store', eg, key, I, p)
                self.store_ty(p, I.ty, const(I.a, I.ty, env), eg)
                kp.pop()
                if self.kill is not None:
                    g = And(g, self.kill); self.kill = None
                    if g is False: break
            elif op == 'select':
                env[I.dst] = self.merge(const(I.a, _I1, env), const(I.b, I.ty, env), const(I.c, I.ty, env), I.ty)
            elif op == 'br':
                if I.b is None:
                    self._edge(fr, b, I.a, g)
                else:
                    c = const(I.x, _I1, env)
                    self._edge(fr, b, I.b, And(g, c))
                    self._edge(fr, b, I.c, And(g, Not(c)))
            elif op == 'switch':
                v = const(I.a, I.ty, env); w = self.width(I.ty)
                rest = g
                for cv, lb in I.c:
                    c = Cmp('eq', v, const(cv, I.ty, env), w)
                    self._edge(fr, b, lb, And(rest, c)); rest = And(rest, Not(c))
                self._edge(fr, b, I.b, rest)
            elif op == 'call' or op == 'invoke':
                kp.append(I.idx)
                self.kill = None
                ng, rv, eg = self._call(fr, I, g)
                kp.pop()
                if self.kill is not None:
                    # a visible builtin (allocation, harness call, ...): the path continues only if the operation
                    # lies before the end of this round's window
                    ng = And(ng, self.kill); self.kill = None
                if I.dst is not None: env[I.dst] = rv
                if op == 'invoke':
                    self._edge(fr, b, I.order, ng)
                    self._edge(fr, b, I.order2, eg)
                else:
                    fr.exc = Or(fr.exc, eg)
                    g = ng
                    if g is False: break
            elif op == 'ret':
                fr.rets.append((g, const(I.a, I.ty, env) if I.a is not None else None))
            elif op == 'alloca':
                kp.append(I.idx)
                n = const(I.a, _I64, env)
                if isinstance(n, Term): raise Unsupported('symbolic alloca')
                env[I.dst] = self.alloca(self.ty.size(I.ty) * n, I.x)
                kp.pop()
            elif op == 'cmpxchg':
                kp.append(I.idx)
                p = const(I.a, ir.PTR, env); exp = const(I.b, I.ty, env); new = const(I.c, I.ty, env)
                if self._private(p): eg, key = g, None
                else: eg, key = self.vis(g)
                n = self.ty.size(I.ty); w = n * 8
                old = self.load(p, n, eg, 'cmpxchg')
                ok = Cmp('eq', old, exp, w)
                self.event('cmpxchg', eg, key, I, p, ok)
                self.store(p, n, new, And(eg, ok), 'cmpxchg')
                env[I.dst] = self.keep(key, eg, (old, ok), _CX[w])
                kp.pop()
                if self.kill is not None:
                    g = And(g, self.kill); self.kill = None
                    if g is False: break
            elif op == 'atomicrmw':
                kp.append(I.idx)
                p = const(I.a, ir.PTR, env); x = const(I.b, I.ty, env)
                if self._private(p): eg, key = g, None
                else: eg, key = self.vis(g)
                n = self.ty.size(I.ty); w = n * 8
                old = self.load(p, n, eg, 'atomicrmw')
                o = I.x
                if o == 'xchg': new = x
                elif o in ('add', 'sub', 'and', 'or', 'xor'): new = BinOp(o, old, x, w)
                elif o == 'nand': new = BinOp('xor', BinOp('and', old, x, w), mask(w), w)
                elif o in ('umax', 'umin', 'max', 'min'):
                    c = Cmp({'umax': 'ult', 'umin': 'ult', 'max': 'slt', 'min': 'slt'}[o], old, x, w)
                    new = Ite(c, x, old, w) if o in ('umax', 'max') else Ite(c, old, x, w)
                else: raise Unsupported('atomicrmw ' + o)
                self.event('rmw', eg, key, I, p)
                self.store(p, n, new, eg, 'atomicrmw')
                env[I.dst] = self.keep(key, eg, old, I.ty)
                kp.pop()
                if self.kill is not None:
                    g = And(g, self.kill); self.kill = None
                    if g is False: break
            elif op == 'fence':
                kp.append(I.idx)
                eg, key = self.vis(g)
                self.event('fence', eg, key, I, None)
                kp.pop()
                if self.kill is not None:
                    g = And(g, self.kill); self.kill = None
                    if g is False: break
            elif op == 'extractvalue':
                v = const(I.a, I.ty, env)
                for i in I.b: v = v[i]
                env[I.dst] = v
            elif op == 'insertvalue':
                v = const(I.a, I.ty, env); x = const(I.c, I.x, env)
                env[I.dst] = _insert(v, I.b, x)
            elif op == 'landingpad':
                t = self.cur
                sel = 0
                for cl in I.a:
                    ti = const(cl, ir.PTR, env)
                    if ti == 0: sel = Ite(True, 0, 0, 32) if False else sel   # catch-all: selector irrelevant
                    else:
                        sel = Ite(Cmp('eq', t.exc_type, ti, 64), self.typeid(ti), sel, 32)
                env[I.dst] = (t.exc_obj, sel)
            elif op == 'resume':
                fr.exc = Or(fr.exc, g)
                break
            elif op == 'unreachable':
                # reached only after noreturn calls; those already turned the guard False
                kp.append(I.idx); eg, _ = self.vis(g); kp.pop()
                self.oblige('unreachable', eg, 'unreachable executed in ' + fr.f.name[:80])
                break
            elif op == 'freeze':
                env[I.dst] = const(I.a, I.ty, env)
            else:
                raise Unsupported('instruction ' + op)

    def typeid(self, ti):
        r = self.typeids.get(ti)
        if r is None: r = self.typeids[ti] = len(self.typeids) + 1
        return r

    def op_event(self, op, begin, eg, key):
        lst = self.optimes.setdefault((op, begin), [])
        lst.append((eg, self.pass_no, self.cur.tid))

    def event(self, kind, eg, key, I, p, ok=None):
        if self.trace_hook is not None and eg is not False:
            self.trace_hook(kind, eg, key, I, p)
        if self.race is not None and kind in ('load', 'store', 'cmpxchg', 'rmw', 'fence'):
            k = kind
            if kind == 'load' and I.order is not None: k = 'aload'
            elif kind == 'store' and I.order is not None: k = 'astore'
            self.race.event(k, I.order, I.order2, eg, key, p, ok)

    def _call(self, fr, I, g):
        env = fr.env
        cal = I.a
        args = [self.const(x, t, env) for t, x in I.b]
        if cal[0] == 'g':
            if cal[1] in self.mod.funcs:
                r = self.call_function(cal[1], args, g); self.kill = None
                return r
            return self.builtin(cal[1], args, g, I)
        if cal[0] == 'asm':
            return self.asm(cal[1], args, g, I)
        fp = self.const(cal, ir.PTR, env)
        cs = self.cands(fp, g, 'indirect call')
        ng = False; eg = False; rv = None
        for a, c in cs:
            gc = And(g, c)
            if gc is False: continue
            name = self.addr_fn.get(a)
            if name is None:
                self.oblige('bad-indirect-call', gc, 'call through %#x (%s)' % (a, self.where()))
                continue
            self.keypath.append(('f', a))
            n1, r1, e1 = self.call_function(name, args, gc) if name in self.mod.funcs else self.builtin(name, args, gc, I)
            self.keypath.pop()
            if r1 is not None:
                rv = r1 if rv is None else self.merge(n1, r1, rv, I.ty)
            ng = Or(ng, n1); eg = Or(eg, e1)
        if rv is None and I.ty.k != 'void': rv = self.zero_of(I.ty)
        self.kill = None
        return ng, rv, eg

    def asm(self, text, args, g, I):
        if 'rdtsc' in text:
            eg, key = self.vis(g)
            v = self.fresh_var('rdtsc', 64)
            self.rdtsc.append(v)
            lo = Trunc(v, 64, 32); hi = Extract(63, 32, v, 64)
            return g, self.keep(key, eg, (lo, hi), I.ty), False
        if 'pause' in text or text.strip('"') == '':
            return g, None, False
        raise Unsupported('inline asm ' + text)

    def fresh_var(self, prefix, w):
        key = (prefix,) + tuple(self.keypath)
        v = self.nondets.get(key)
        if v is None:
            self.fresh += 1
            import hashlib
            name = '%s_%s' % (prefix, hashlib.md5(repr(key).encode()).hexdigest()[:10])     # stable across runs (replay)
            fx = self.fixed_named.get(name)
            v = (fx & mask(w)) if fx is not None else var(name, w)
            self.nondets[key] = v
        return v

    # ------------------------------------------------------------ builtins
    def builtin(self, name, args, g, I):
        from . import builtins
        return builtins.call(self, name, args, g, I)

    # ------------------------------------------------------------ running entry points
    def run_entry(self, name, args=(), g=True):
        self.keypath.append(('e', name, self.cur.tid))
        r = self.call_function(name, list(args), g)
        self.keypath.pop()
        return r

    def run_ctors(self):
        for prio, fn in self.mod.ctors:
            self.run_entry(fn)

    def thread_exit(self, g=True):
        """run thread-local destructors registered through __cxa_thread_atexit (reverse order)"""
        t = self.cur
        lst = list(t.atexit); t.atexit = []
        # handlers are identified by the key path of their registration (stable across passes and between symbolic and
        # concrete runs) and run in registration order; the harnesses have one thread-local object per thread
        lst.sort(key=lambda e: e[3])
        for ag, fn, obj, regkey in lst:
            gg = And(g, ag)
            if gg is False: continue
            self.keypath.append(('x', t.tid, regkey))
            for a, c in self.cands(fn, gg, 'atexit'):
                nm = self.addr_fn.get(a)
                if nm is None: continue
                self.call_function(nm, [obj], And(gg, c))
            self.keypath.pop()


_BIN = {'add', 'sub', 'mul', 'and', 'or', 'xor', 'shl', 'lshr', 'ashr', 'udiv', 'urem', 'sdiv', 'srem'}
_CAST = {'zext', 'sext', 'trunc', 'bitcast', 'inttoptr', 'ptrtoint', 'addrspacecast'}
_I1 = ir.IntTy(1)
_I64 = ir.IntTy(64)
_CX = {w: ir.Ty('struct', elems=[ir.IntTy(w), ir.IntTy(1)]) for w in (8, 16, 32, 64, 128)}


def _insert(v, idx, x):
    if not idx: return x
    l = list(v)
    l[idx[0]] = _insert(l[idx[0]], idx[1:], x)
    return tuple(l)


def _cstring(s):
    s = s[2:-1] if s.startswith('c"') else s[1:-1]
    out = []; i = 0
    while i < len(s):
        if s[i] == '\\':
            if s[i + 1] == '\\': out.append(92); i += 2
            else: out.append(int(s[i + 1:i + 3], 16)); i += 3
        else:
            out.append(ord(s[i])); i += 1
    return out
