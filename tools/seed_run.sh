#!/bin/bash
# tools/seed_run.sh <seed-dir-name> [check args...]: run a property's check against a seeded change in a scratch worktree of /repo
# (XENIUM_REPO points the engine at the worktree; /repo itself is not touched).  Prints the verdict line.
seed=$1; shift
prop=${PROP:-${seed%%-*}}
wt=/tmp/seedwt_$seed
git -C /repo worktree remove --force $wt >/dev/null 2>&1
git -C /repo worktree add --detach $wt HEAD >/dev/null 2>&1 || { echo "$seed: worktree failed"; exit 3; }
git -C $wt apply /verif/seeded/$seed/patch.diff || { echo "$seed: patch failed"; git -C /repo worktree remove --force $wt; exit 3; }
cd /verif
s=$(date +%s)
XENIUM_REPO=$wt XSYM_BUILD=/tmp/seedbuild_$seed VERIF_EVIDENCE_DIR=/tmp/seedev_$seed timeout ${SEED_TIMEOUT:-2400} python3-vt check.py $prop "$@" > /tmp/seedlog_$seed.txt 2>&1
rc=$?
echo "$seed prop=$prop rc=$rc wall=$(( $(date +%s) - s ))s $(grep -m1 '^VIOLATION\|^ENGINE-FAULT\|^KNOWN' /tmp/seedlog_$seed.txt | cut -c1-200)"
git -C /repo worktree remove --force $wt >/dev/null 2>&1
rm -rf /tmp/seedbuild_$seed /tmp/seedev_$seed
