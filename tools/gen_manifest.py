#!/usr/bin/env python3
"""Regenerates /verif/MANIFEST.json from the table below (claimed checks + not_applicable)."""
import json, os
HERE = os.path.dirname(os.path.dirname(os.path.abspath(__file__)))
props = [json.loads(l) for l in open(os.path.join(HERE, 'properties.jsonl'))]
TECH = 'bounded symbolic execution of clang LLVM IR (xsym: guarded SSA, concrete cell addresses, symbolic context-switch windows) + SMT (z3 / cvc5)'
CLAIMS = {
 'C01': dict(text='Bounded, solver-decided: for 2-3 threads, K rounds of solver-chosen context switches and the listed reclaimer instantiations, no execution of the reader/writer client dereferences, double-frees or invalidly frees a node (engine lifetime oracle on every access). quick: hazard_pointer and lock_free_ref_count; thorough: all twelve configurations, K=3, third scanning thread.',
             note='SC interleavings only; <= K*T-1 context switches; one shared cell, <= 2 retirements; std algorithm stubs (harness/common/std_stubs.h); fresh addresses (no reuse); loop bound U with unwinding assertions reported per scenario', ref='4 C01'),
 'C10': dict(text='PARTIAL, bounded, solver-decided: with all keys colliding in one bucket (slots + extension items): sequentially one update with a symbolic key (erase / extract / emplace) followed by a lock-free lookup of a symbolic key vs a reference map; concurrently a lock-free try_get_value of a key present throughout vs erase/extract of another key of the same bucket with symbolic context switches (K=2-3).',
             note='trivial keys/values, no grow, no traversal (those exceed the engine), epoch based reclaimer; the seeded C10 change (no version bump when unlinking an extension item) is NOT detected by these scenarios', ref='10.2 C10'),
 'C12': dict(text='Bounded, solver-decided: sequential operation sequences (symbolic ops) from an arbitrary 62-bit index offset incl. growth agree with a reference deque; owner/thief interleavings (K=2,3) hand out every item exactly once. One genuine finding (F2) is listed in known_findings.txt.',
             note='offsets < 2^62; <= 5 symbolic ops; 2 threads (3 in thorough); SC only', ref='4 C12'),
 'C14': dict(text='Bounded, solver-decided: store/update/load round trips for element sizes 12-24 bytes and slots 1-3 with symbolic contents; writer/reader interleavings (K=2,3): every load equals a written value in all bytes and loads are monotone.',
             note='SC only; reader spin-wait loops beyond U iterations excluded (blocking by design for slots==1)', ref='4 C14'),
 'C15': dict(text='Bounded, solver-decided: marked_ptr round trip for every mark width 0..32 and three upper/lower splits over all 64-bit pointer/mark values (one query); symbolic sequences of guard operations vs a reference model for hazard_pointer, hazard_eras, epoch based and lock_free_ref_count (all twelve configurations in thorough).',
             note='sequence length 3 (quick) / 4 (thorough); single thread; the concurrent snapshot clause is exercised by C01 scenarios', ref='4 C15'),
 'C03': dict(text='PARTIAL (race-freedom half only): the concurrent scenarios of the deque, seqlock, left_right and the hazard_pointer / lock_free_ref_count reader-writer clients (plus queues and epoch based in thorough) are re-run with a happens-before oracle: vector clocks over operation positions are terms, synchronisation is generated exactly by the memory orders, RMW release sequences and fences written in the IR, and every plain access to a heap/global cell is checked against the last conflicting access of every other thread. A weakening that creates a C++11 data race on a plain object is reported (e.g. relaxed instead of acquire on the deque capacity).',
             note='only SC interleavings are explored: weak executions without a data race on a plain object (store buffering between atomics, dropped seq_cst fences) are OUTSIDE this check; production build variant only (not TSAN_MEMORY_ORDER); 2 threads, K=2-3', ref='10.2 C03'),
 'C02': dict(text='Bounded, solver-decided for hazard_pointer: two threads retire nodes with stateful custom deleters (one node guarded by the other thread), exit (thread-local destructors and hand-over of pending nodes run inside the model), a later generation flushes; census: each retired node destroyed exactly once by its own deleter. Other schemes and a cross-guard variant in the thorough tier.',
             note='2 threads + flushing generation, K=2; SC only; std algorithm stubs; the cross-guard variant currently ends inconclusive (ENGINE-FAULT, DESIGN.md 10.5)', ref='10.2 C02'),
 'C04': dict(text='Bounded, solver-decided for michael_scott_queue (reclaimer lock_free_ref_count): producer/consumer interleavings with K=2-3 rounds of solver-chosen context switches; conservation, no duplication, FIFO order, legality of empty. ramalhete_queue / nikolaev_queue are attempted only in the thorough tier with 1 push || 1 pop (larger scenarios exceed the solver budget).',
             note='partial: one of the three queues in the quick tier; <= 2 operations per thread; SC only', ref='10.2 C04'),
 'C07': dict(text='Bounded, solver-decided census of owning elements (non-trivial token, unique_ptr) for vyukov_bounded_queue and michael_scott_queue (quick) and nikolaev_bounded_queue (thorough): two producers + consumer with symbolic context switches, then queue destruction: handed out XOR destroyed exactly once; rejected values stay with the caller or are destroyed once with a by-value parameter.',
             note='partial: ramalhete_queue (finding F4) and nikolaev_queue are beyond the solver budget; K=2-3; SC only', ref='10.2 C07'),
 'C05': dict(text='Bounded, solver-decided: symbolic push/pop sequences from several ring rotations vs a bounded FIFO reference (vyukov: 4 ops, nikolaev: 2-3 ops); producer/consumer interleavings with conservation, order and legality of empty/full.',
             note='capacity 2 (4 in thorough); 2 threads; vyukov strong operations spin while another operation is in flight (beyond U spins outside the bound); SC only', ref='4 C05'),
 'C06': dict(text='Bounded, solver-decided for kirsch_bounded_kfifo_queue (and the unbounded queue with hazard pointers in thorough): the random start index is a solver variable; symbolic sequences vs a k-FIFO reference; producer/consumer interleavings incl. the wrapped head/tail state.',
             note='k in {1,2}, 2-3 segments; 2 threads, K=2-3; products above 2^16 are outside the bound (finding F11 is documented in DESIGN.md, not decided by a check)', ref='4 C06'),
 'C13': dict(text='Bounded, solver-decided: writer with back-to-back updates vs 1-2 readers, all context switch positions symbolic (K=2..4): no mixed snapshot, monotone reads, both instances updated exactly once.',
             note='std::mutex as blocking flag; wait loops beyond U spins outside the bound; SC only', ref='4 C13'),
 'C16': dict(text='Bounded, solver-decided progress obligations: a disturber thread may be stopped at ANY memory access (free final switch point); the observed operation must finish within U loop iterations (reachability of its unwinding flags is posed to the solver). Michael-Scott queue, Kirsch bounded k-FIFO, deque steal, seqlock(slots=2) load, left_right read, hazard pointer guard acquire; sequential instance: vyukov_hash_map::try_get_value among colliding non-trivial keys.',
             note='2 threads, K=2 (3 in thorough), U=3-8; blocking operations excluded as documented', ref='10.2 C16'),
 'C17': dict(text='Three thread generations per scheme: sequential generations (HP, HE, EBR, QSBR, stamp-it; deterministic, decided by constant folding) must not allocate bookkeeping beyond the first generation and must keep the census of retired nodes exact across control-block reuse; overlapping generations (hazard_pointer, K=2 with symbolic context switches incl. inside thread exit/adoption): bounded bookkeeping, exact census, no use after free.',
             note='weak for the sequential part (no solver variables); the solver-decided part is the 2-thread overlap for hazard_pointer (hazard_eras and K=3 in thorough); 3 overlapping threads are outside the bound', ref='10.2 C17'),
 'C18': dict(text='Bounded, solver-decided: symbolic guard-operation sequences against slot accounting invariants for static/dynamic hazard_pointer and hazard_eras incl. exhaustion (exceptions are modelled) and slot reuse.',
             note='K in {1,2,3}; 3 guards; sequence length 2-4; protection = published slot (representation invariant), scans honouring slots is C01', ref='4 C18'),
}
NA_REASON = 'check not built yet in this session (engine exists; harness pending)'
checks = []
for p in props:
    c = CLAIMS.get(p['id'])
    if not c: continue
    checks.append({'property_id': p['id'], 'quick_cmd': './check %s --tier quick' % p['id'], 'thorough_cmd': 'XSYM_PORTFOLIO=z3smt,z3new,cvc5 ./check %s --tier thorough' % p['id'],
                   'evidence_file': 'evidence/%s.json' % p['id'], 'replay_cmd_template': './check replay {path}', 'engine': 'xsym',
                   'level_claimed': {'category': 'model_checking', 'text': c['text'], 'design_ref': 'DESIGN.md section ' + c['ref']},
                   'level_note': c['note'], 'technique': TECH})
NA = json.load(open(os.path.join(HERE, 'tools', 'not_applicable.json'))) if os.path.exists(os.path.join(HERE, 'tools', 'not_applicable.json')) else {}
m = {'version': 1, 'setup_cmd': 'true',
     'hooks': {'guard': 'XENIUM_VERIF', 'enable': 'harness TUs are compiled with -DXENIUM_VERIF; the engine needs no source hook in /repo (none committed)',
               'baseline_off_cmd': 'cmake --build /repo/_build --target gtest && ctest --test-dir /repo/_build -j8 --timeout 900', 'source_commits': [], 'add_only': True},
     'engines': [{'name': 'xsym', 'path': '/verif/xsym', 'serves_properties': sorted(CLAIMS),
                  'kind_free_text': 'own bounded symbolic executor over clang-14 -O1 LLVM IR of harness TUs that instantiate the real xenium headers; threads by lazy sequentialisation with symbolic context-switch windows; SMT queries decided by z3 5.1 (smt and default tactics) and cvc5 1.0.3 as a portfolio'}],
     'checks': checks,
     'not_applicable': [{'property_id': p['id'], 'reason': NA.get(p['id'], NA_REASON)} for p in props if p['id'] not in CLAIMS],
     'notes': 'Fixed defects and known findings: known_findings.txt. Seeded changes used to test the checks: seeded/. Every check rebuilds the IR from /repo on each run.'}
json.dump(m, open(os.path.join(HERE, 'MANIFEST.json'), 'w'), indent=1)
print('claimed', sorted(CLAIMS), 'not applicable', [x['property_id'] for x in m['not_applicable']])
